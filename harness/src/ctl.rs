//! Schedule controller (DESIGN §4.4). Implements txtpp's `verif::Controller`.
//!
//! Controlled mode: every pool task stops at `begin` until released; the coordinator's idle
//! branch is the choice point: it waits until the deterministic gate set has arrived, picks
//! one gated task (by a `Chooser`), lets it run to its `end` (which comes after its `send`),
//! and tells the coordinator to poll again. Task executions are therefore serialised and
//! their order is chosen by the harness.
//!
//! Free mode: no gates; idle polls skip the 100 ms sleep.
//!
//! Both modes detect a logical deadlock without a clock: two consecutive idle polls with no
//! unfinished task and no task ending in between mean that the channel is empty for good.

use serde::{Deserialize, Serialize};
use std::sync::{Condvar, Mutex};
use std::time::{Duration, Instant};
use txtpp::verif::{Controller, Idle, TaskKind};

#[derive(Debug, Clone, Copy, PartialEq, Eq, Hash, Serialize, Deserialize, PartialOrd, Ord)]
pub enum Pass {
    Scan,
    First,
    Second,
}

impl From<TaskKind> for Pass {
    fn from(k: TaskKind) -> Self {
        match k {
            TaskKind::Scan => Pass::Scan,
            TaskKind::FirstPass => Pass::First,
            TaskKind::SecondPass => Pass::Second,
        }
    }
}

#[derive(Debug, Clone, PartialEq, Eq, Serialize, Deserialize)]
pub enum Event {
    Spawn(u64, String, Pass),
    Begin(u64),
    End(u64, bool),
    Idle(bool),
    Finished(bool),
}

#[derive(Debug, Clone, Copy, PartialEq, Eq)]
enum St {
    Queued,
    AtGate,
    Running,
    Ended,
}

#[derive(Debug, Clone)]
struct Task {
    id: u64,
    path: String,
    pass: Pass,
    st: St,
    panicked: bool,
}

pub trait Chooser: Send {
    /// choose one of `n >= 1` options (labels describe them)
    fn choose(&mut self, n: usize, labels: &[String]) -> usize;
}

/// Follows a prefix of choices, then takes option 0; records arities so that a DFS can
/// enumerate all schedules by re-execution.
pub struct PrefixChooser {
    pub prefix: Vec<usize>,
    pub taken: Vec<(usize, usize)>, // (choice, arity)
}

impl Chooser for PrefixChooser {
    fn choose(&mut self, n: usize, _labels: &[String]) -> usize {
        let i = self.taken.len();
        let c = self.prefix.get(i).copied().unwrap_or(0).min(n - 1);
        self.taken.push((c, n));
        c
    }
}

/// Choices from a stream of u16 (proptest-generated), mapped monotonically.
pub struct StreamChooser {
    pub data: Vec<u16>,
    pub pos: usize,
    pub taken: Vec<(usize, usize)>,
}

impl Chooser for StreamChooser {
    fn choose(&mut self, n: usize, _labels: &[String]) -> usize {
        let raw = self.data.get(self.pos).copied().unwrap_or(0) as usize;
        self.pos += 1;
        let c = (raw * n) >> 16;
        self.taken.push((c, n));
        c
    }
}

/// next prefix in DFS order, or None when the space is exhausted
pub fn next_prefix(taken: &[(usize, usize)]) -> Option<Vec<usize>> {
    let mut i = taken.len();
    while i > 0 {
        i -= 1;
        let (c, n) = taken[i];
        if c + 1 < n {
            let mut p: Vec<usize> = taken[..i].iter().map(|t| t.0).collect();
            p.push(c + 1);
            return Some(p);
        }
    }
    None
}

struct Inner {
    tasks: Vec<Task>,
    open_all: bool,
    trace: Vec<Event>,
    chooser: Option<Box<dyn Chooser>>,
    /// labels of the chosen tasks: (path, pass)
    schedule: Vec<(String, Pass)>,
    taken: Vec<(usize, usize)>,
    ends: u64,
    last_idle_empty_at_ends: Option<u64>,
    deadlock: bool,
    deadlock_in_drop: bool,
    infra: Option<String>,
    idle_polls: u64,
    branching_steps: u64,
    max_gated: usize,
}

pub struct Ctl {
    controlled: bool,
    pool_size: usize,
    inner: Mutex<Inner>,
    cv: Condvar,
}

#[derive(Debug, Clone, Default)]
pub struct CtlReport {
    pub trace: Vec<Event>,
    pub schedule: Vec<(String, Pass)>,
    pub taken: Vec<(usize, usize)>,
    pub deadlock: bool,
    pub deadlock_in_drop: bool,
    pub panicked_tasks: Vec<(String, Pass)>,
    pub infra: Option<String>,
    pub idle_polls: u64,
    pub branching_steps: u64,
    pub max_gated: usize,
    pub tasks: usize,
}

const GATE_WAIT: Duration = Duration::from_secs(20);
const TASK_WAIT: Duration = Duration::from_secs(120);

impl Ctl {
    pub fn free() -> Self {
        Self::new(false, 0, None)
    }
    pub fn controlled(pool_size: usize, chooser: Box<dyn Chooser>) -> Self {
        Self::new(true, pool_size, Some(chooser))
    }
    fn new(controlled: bool, pool_size: usize, chooser: Option<Box<dyn Chooser>>) -> Self {
        Self {
            controlled,
            pool_size,
            inner: Mutex::new(Inner {
                tasks: vec![],
                open_all: false,
                trace: vec![],
                chooser,
                schedule: vec![],
                taken: vec![],
                ends: 0,
                last_idle_empty_at_ends: None,
                deadlock: false,
                deadlock_in_drop: false,
                infra: None,
                idle_polls: 0,
                branching_steps: 0,
                max_gated: 0,
            }),
            cv: Condvar::new(),
        }
    }

    /// release every gate (used when the run is over, and from the panic hook)
    pub fn open_all(&self) {
        let mut g = self.inner.lock().unwrap_or_else(|e| e.into_inner());
        g.open_all = true;
        self.cv.notify_all();
    }

    pub fn report(&self) -> CtlReport {
        let g = self.inner.lock().unwrap_or_else(|e| e.into_inner());
        CtlReport {
            trace: g.trace.clone(),
            schedule: g.schedule.clone(),
            taken: g.taken.clone(),
            deadlock: g.deadlock,
            deadlock_in_drop: g.deadlock_in_drop,
            panicked_tasks: g
                .tasks
                .iter()
                .filter(|t| t.panicked)
                .map(|t| (t.path.clone(), t.pass))
                .collect(),
            infra: g.infra.clone(),
            idle_polls: g.idle_polls,
            branching_steps: g.branching_steps,
            max_gated: g.max_gated,
            tasks: g.tasks.len(),
        }
    }

}

impl Controller for Ctl {
    fn spawned(&self, id: u64, path: &str, kind: TaskKind) {
        let mut g = self.inner.lock().unwrap_or_else(|e| e.into_inner());
        let pass: Pass = kind.into();
        g.trace.push(Event::Spawn(id, path.to_string(), pass));
        g.tasks.push(Task {
            id,
            path: path.to_string(),
            pass,
            st: St::Queued,
            panicked: false,
        });
    }

    fn begin(&self, id: u64) {
        let mut g = self.inner.lock().unwrap_or_else(|e| e.into_inner());
        if !self.controlled {
            if let Some(t) = g.tasks.iter_mut().find(|t| t.id == id) {
                t.st = St::Running;
            }
            g.trace.push(Event::Begin(id));
            return;
        }
        if let Some(t) = g.tasks.iter_mut().find(|t| t.id == id) {
            t.st = St::AtGate;
        }
        self.cv.notify_all();
        loop {
            if g.open_all {
                break;
            }
            if let Some(t) = g.tasks.iter().find(|t| t.id == id) {
                if t.st == St::Running {
                    break;
                }
            }
            g = self.cv.wait(g).unwrap_or_else(|e| e.into_inner());
        }
        if let Some(t) = g.tasks.iter_mut().find(|t| t.id == id) {
            t.st = St::Running;
        }
        g.trace.push(Event::Begin(id));
    }

    fn end(&self, id: u64, panicking: bool) {
        let mut g = self.inner.lock().unwrap_or_else(|e| e.into_inner());
        if let Some(t) = g.tasks.iter_mut().find(|t| t.id == id) {
            t.st = St::Ended;
            t.panicked = panicking;
        }
        g.ends += 1;
        g.trace.push(Event::End(id, panicking));
        self.cv.notify_all();
    }

    fn idle(&self, in_drop: bool) -> Idle {
        let mut g = self.inner.lock().unwrap_or_else(|e| e.into_inner());
        g.idle_polls += 1;
        g.trace.push(Event::Idle(in_drop));
        let unfinished = g.tasks.iter().filter(|t| t.st != St::Ended).count();
        if unfinished == 0 {
            // every result that will ever be sent has been sent before this poll
            if g.last_idle_empty_at_ends == Some(g.ends) {
                g.deadlock = true;
                g.deadlock_in_drop = in_drop;
                return Idle::Abort;
            }
            g.last_idle_empty_at_ends = Some(g.ends);
            return Idle::Continue;
        }
        g.last_idle_empty_at_ends = None;
        if !self.controlled || g.open_all {
            drop(g);
            std::thread::sleep(Duration::from_micros(50));
            return Idle::Continue;
        }
        // wait for the gate set: the first min(pool, unfinished) unfinished tasks in spawn order
        let want = self.pool_size.min(unfinished).max(1);
        let start = Instant::now();
        loop {
            let at_gate = g.tasks.iter().filter(|t| t.st == St::AtGate).count();
            let running = g.tasks.iter().filter(|t| t.st == St::Running).count();
            if at_gate + running >= want && running == 0 {
                break;
            }
            if start.elapsed() > GATE_WAIT {
                if at_gate > 0 && running == 0 {
                    break;
                }
                g.infra = Some(format!(
                    "gate set did not arrive: want {want}, at gate {at_gate}, running {running}"
                ));
                g.open_all = true;
                self.cv.notify_all();
                return Idle::Abort;
            }
            let (ng, _) = self
                .cv
                .wait_timeout(g, Duration::from_millis(200))
                .unwrap_or_else(|e| e.into_inner());
            g = ng;
            if g.open_all {
                return Idle::Continue;
            }
        }
        let gated: Vec<usize> = g
            .tasks
            .iter()
            .enumerate()
            .filter(|(_, t)| t.st == St::AtGate)
            .map(|(i, _)| i)
            .collect();
        let labels: Vec<String> = gated
            .iter()
            .map(|i| format!("{}:{:?}", g.tasks[*i].path, g.tasks[*i].pass))
            .collect();
        if gated.len() > 1 {
            g.branching_steps += 1;
        }
        g.max_gated = g.max_gated.max(gated.len());
        let mut chooser = g.chooser.take().expect("chooser");
        let c = chooser.choose(gated.len(), &labels);
        g.chooser = Some(chooser);
        g.taken.push((c, gated.len()));
        let ti = gated[c];
        let id = g.tasks[ti].id;
        let label = (g.tasks[ti].path.clone(), g.tasks[ti].pass);
        g.schedule.push(label);
        g.tasks[ti].st = St::Running;
        self.cv.notify_all();
        // wait for its end
        let start = Instant::now();
        loop {
            if g.tasks[ti].st == St::Ended {
                break;
            }
            if start.elapsed() > TASK_WAIT {
                g.infra = Some(format!("task {id} did not end within {TASK_WAIT:?}"));
                g.open_all = true;
                self.cv.notify_all();
                return Idle::Abort;
            }
            let (ng, _) = self
                .cv
                .wait_timeout(g, Duration::from_millis(500))
                .unwrap_or_else(|e| e.into_inner());
            g = ng;
        }
        Idle::Continue
    }

    fn finished(&self, ok: bool) {
        let mut g = self.inner.lock().unwrap_or_else(|e| e.into_inner());
        g.trace.push(Event::Finished(ok));
        g.open_all = true;
        self.cv.notify_all();
    }
}
