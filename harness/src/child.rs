//! Child processes for what is process-wide: current directory, RLIMIT_FSIZE, the CLI binary's
//! exit status and environment guard, SIGKILL.

use crate::runner::RunOpts;
use serde::{Deserialize, Serialize};
use std::io::Read;
use std::os::unix::process::{CommandExt, ExitStatusExt};
use std::path::{Path, PathBuf};
use std::process::{Command, Stdio};
use std::time::{Duration, Instant};

pub fn cli() -> String {
    std::env::var("VFY_CLI").unwrap_or_else(|_| "/verif/target/cli/release/txtpp".to_string())
}

/// what `vfy child-run` is asked to do
#[derive(Debug, Clone, Serialize, Deserialize)]
pub struct LibSpec {
    /// working directory of the child (absolute)
    pub cwd: String,
    /// base_dir passed to txtpp, relative to cwd or absolute
    pub base: String,
    pub opts: RunOpts,
}

#[derive(Debug, Clone, Default, Serialize, Deserialize)]
pub struct LibResult {
    pub ok: bool,
    pub err: Option<String>,
    pub panics: Vec<String>,
    pub unwound: bool,
    pub deadlock: bool,
}

#[derive(Debug, Clone, Default)]
pub struct Exit {
    pub code: Option<i32>,
    pub signal: Option<i32>,
    pub timed_out: bool,
    pub stdout: String,
    pub stderr: String,
}

fn with_limit(cmd: &mut Command, fsize: Option<u64>) {
    if let Some(n) = fsize {
        unsafe {
            cmd.pre_exec(move || {
                libc::signal(libc::SIGXFSZ, libc::SIG_IGN);
                let lim = libc::rlimit { rlim_cur: n, rlim_max: n };
                if libc::setrlimit(libc::RLIMIT_FSIZE, &lim) != 0 {
                    return Err(std::io::Error::last_os_error());
                }
                Ok(())
            });
        }
    }
}

pub fn wait(mut child: std::process::Child, limit: Duration) -> Exit {
    let start = Instant::now();
    let mut ex = Exit::default();
    // drain pipes in threads so that a chatty child cannot block
    let so = child.stdout.take();
    let se = child.stderr.take();
    let t1 = std::thread::spawn(move || {
        let mut s = String::new();
        if let Some(mut p) = so {
            let mut b = vec![];
            let _ = p.read_to_end(&mut b);
            s = String::from_utf8_lossy(&b).to_string();
        }
        s
    });
    let t2 = std::thread::spawn(move || {
        let mut s = String::new();
        if let Some(mut p) = se {
            let mut b = vec![];
            let _ = p.read_to_end(&mut b);
            s = String::from_utf8_lossy(&b).to_string();
        }
        s
    });
    loop {
        match child.try_wait() {
            Ok(Some(st)) => {
                ex.code = st.code();
                ex.signal = st.signal();
                break;
            }
            Ok(None) => {
                if start.elapsed() > limit {
                    let _ = child.kill();
                    let _ = child.wait();
                    ex.timed_out = true;
                    break;
                }
                std::thread::sleep(Duration::from_millis(2));
            }
            Err(_) => break,
        }
    }
    ex.stdout = t1.join().unwrap_or_default();
    ex.stderr = t2.join().unwrap_or_default();
    ex
}

/// run the library in a child process (own cwd / rlimit)
pub fn run_lib(spec: &LibSpec, fsize: Option<u64>, limit: Duration) -> (Exit, Option<LibResult>) {
    let exe = std::env::current_exe().expect("current_exe");
    let mut cmd = Command::new(exe);
    cmd.arg("child-run")
        .arg(serde_json::to_string(spec).unwrap())
        .stdin(Stdio::null())
        .stdout(Stdio::piped())
        .stderr(Stdio::piped());
    if fsize.is_some() {
        cmd.env("VFY_NO_LIMITS", "1");
    }
    with_limit(&mut cmd, fsize);
    let child = cmd.spawn().expect("spawn child-run");
    let ex = wait(child, limit);
    let res = ex
        .stdout
        .lines()
        .find_map(|l| l.strip_prefix("RESULT "))
        .and_then(|j| serde_json::from_str::<LibResult>(j).ok());
    (ex, res)
}

/// run the txtpp binary
pub fn run_cli(cwd: &Path, args: &[String], env: &[(String, String)], fsize: Option<u64>, limit: Duration) -> Exit {
    let mut cmd = Command::new(cli());
    cmd.args(args)
        .current_dir(cwd)
        .env_remove("TXTPP_FILE")
        .env_remove("RUST_LOG")
        .stdin(Stdio::null())
        .stdout(Stdio::piped())
        .stderr(Stdio::piped());
    for (k, v) in env {
        cmd.env(k, v);
    }
    with_limit(&mut cmd, fsize);
    let child = match cmd.spawn() {
        Ok(c) => c,
        Err(e) => {
            return Exit {
                stderr: format!("cannot spawn {}: {e}", cli()),
                ..Default::default()
            }
        }
    };
    wait(child, limit)
}

pub fn cli_args(opts: &RunOpts) -> Vec<String> {
    let mut a: Vec<String> = opts.mode.cli_args().iter().map(|s| s.to_string()).collect();
    a.push("-q".into());
    if opts.recursive {
        a.push("-r".into());
    }
    a.push("-j".into());
    a.push(opts.threads.to_string());
    if opts.mode != crate::runner::ModeS::Clean {
        if !opts.shell.is_empty() {
            a.push("-s".into());
            a.push(opts.shell.clone());
        }
        if !opts.trailing_newline {
            a.push("-n".into());
        }
    }
    a.push("--".into());
    a.extend(opts.inputs.iter().cloned());
    a
}

/// entry point of `vfy child-run <json>`
pub fn child_main(json: &str) -> i32 {
    let spec: LibSpec = match serde_json::from_str(json) {
        Ok(s) => s,
        Err(e) => {
            eprintln!("bad spec: {e}");
            return 2;
        }
    };
    if std::env::set_current_dir(&spec.cwd).is_err() {
        eprintln!("cannot chdir to {}", spec.cwd);
        return 2;
    }
    crate::runner::init_panic_hook();
    let out = crate::runner::run_free(&PathBuf::from(&spec.base), &spec.opts);
    let r = LibResult {
        ok: out.ok,
        err: out.err.as_ref().map(|e| crate::props::common::strip_ansi(e).chars().take(1500).collect()),
        panics: out.panics.clone(),
        unwound: out.unwound,
        deadlock: out.report.deadlock,
    };
    println!("RESULT {}", serde_json::to_string(&r).unwrap());
    0
}
