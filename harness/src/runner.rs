//! Run txtpp in-process under a controller, capturing panics on any thread.

use crate::ctl::{Ctl, CtlReport};
use serde::{Deserialize, Serialize};
use std::path::Path;
use std::sync::atomic::{AtomicBool, Ordering};
use std::sync::{Arc, Mutex};

#[derive(Debug, Clone, Copy, PartialEq, Eq, Hash, Serialize, Deserialize, PartialOrd, Ord)]
pub enum ModeS {
    Build,
    Needed,
    Verify,
    Clean,
}

impl ModeS {
    pub fn to_txtpp(self) -> txtpp::Mode {
        match self {
            ModeS::Build => txtpp::Mode::Build,
            ModeS::Needed => txtpp::Mode::InMemoryBuild,
            ModeS::Verify => txtpp::Mode::Verify,
            ModeS::Clean => txtpp::Mode::Clean,
        }
    }
    pub fn cli_args(self) -> Vec<&'static str> {
        match self {
            ModeS::Build => vec![],
            ModeS::Needed => vec!["-N"],
            ModeS::Verify => vec!["verify"],
            ModeS::Clean => vec!["clean"],
        }
    }
}

#[derive(Debug, Clone, PartialEq, Eq, Serialize, Deserialize)]
pub struct RunOpts {
    pub mode: ModeS,
    pub trailing_newline: bool,
    pub threads: usize,
    pub recursive: bool,
    pub inputs: Vec<String>,
    #[serde(default)]
    pub shell: String,
}

impl RunOpts {
    pub fn build(inputs: Vec<String>) -> Self {
        Self {
            mode: ModeS::Build,
            trailing_newline: true,
            threads: 4,
            recursive: false,
            inputs,
            shell: String::new(),
        }
    }
    pub fn with_mode(&self, mode: ModeS) -> Self {
        let mut o = self.clone();
        o.mode = mode;
        o
    }
}

static IN_RUN: AtomicBool = AtomicBool::new(false);
static PANICS: Mutex<Vec<String>> = Mutex::new(Vec::new());
static CURRENT: Mutex<Option<Arc<Ctl>>> = Mutex::new(None);

pub fn init_panic_hook() {
    let default = std::panic::take_hook();
    std::panic::set_hook(Box::new(move |info| {
        if IN_RUN.load(Ordering::SeqCst) {
            let th = std::thread::current();
            let msg = format!("thread {:?}: {}", th.name().unwrap_or("?"), info);
            PANICS.lock().unwrap_or_else(|e| e.into_inner()).push(msg);
            // a panicking coordinator never reports `finished`: open the gates so that the
            // pool can be joined
            if let Some(c) = CURRENT.lock().unwrap_or_else(|e| e.into_inner()).as_ref() {
                if th.name() == Some(CASE_THREAD) || th.name() == Some("main") {
                    c.open_all();
                }
            }
        } else {
            default(info);
        }
    }));
}

pub const CASE_THREAD: &str = "vfy-case";

#[derive(Debug, Clone)]
pub struct Outcome {
    pub ok: bool,
    pub err: Option<String>,
    /// panic messages from any thread during the run
    pub panics: Vec<String>,
    /// Txtpp::run itself unwound
    pub unwound: bool,
    pub report: CtlReport,
}

impl Outcome {
    pub fn misbehaved(&self) -> Option<String> {
        if self.unwound {
            return Some(format!("Txtpp::run panicked: {:?}", self.panics));
        }
        if !self.panics.is_empty() {
            return Some(format!("a thread panicked: {:?}", self.panics));
        }
        if self.report.deadlock {
            return Some(format!(
                "logical deadlock: the coordinator waits{} although no task is outstanding",
                if self.report.deadlock_in_drop { " (in Drop)" } else { "" }
            ));
        }
        None
    }
}

/// Run txtpp with `base` as base directory.
pub fn run(base: &Path, opts: &RunOpts, ctl: Arc<Ctl>) -> Outcome {
    let config = txtpp::Config {
        base_dir: base.to_path_buf(),
        shell_cmd: opts.shell.clone(),
        inputs: opts.inputs.clone(),
        recursive: opts.recursive,
        num_threads: opts.threads,
        mode: opts.mode.to_txtpp(),
        verbosity: txtpp::Verbosity::Quiet,
        trailing_newline: opts.trailing_newline,
    };
    PANICS.lock().unwrap_or_else(|e| e.into_inner()).clear();
    *CURRENT.lock().unwrap_or_else(|e| e.into_inner()) = Some(ctl.clone());
    IN_RUN.store(true, Ordering::SeqCst);
    txtpp::verif::install(ctl.clone());
    let r = std::panic::catch_unwind(std::panic::AssertUnwindSafe(|| txtpp::Txtpp::run(config)));
    txtpp::verif::uninstall();
    ctl.open_all();
    IN_RUN.store(false, Ordering::SeqCst);
    *CURRENT.lock().unwrap_or_else(|e| e.into_inner()) = None;
    let panics = std::mem::take(&mut *PANICS.lock().unwrap_or_else(|e| e.into_inner()));
    let (ok, err, unwound) = match r {
        Ok(Ok(())) => (true, None, false),
        Ok(Err(e)) => (false, Some(format!("{e:?}")), false),
        Err(_) => (false, Some("panic".to_string()), true),
    };
    Outcome {
        ok,
        err,
        panics,
        unwound,
        report: ctl.report(),
    }
}

pub fn run_free(base: &Path, opts: &RunOpts) -> Outcome {
    run(base, opts, Arc::new(Ctl::free()))
}
