//! vfy — property-based verification harness for txtpp (see /verif/DESIGN.md)
#![allow(dead_code)]
pub mod child;
pub mod confine;
pub mod ctl;
pub mod fsx;
pub mod gen;
pub mod model;
pub mod orch;
pub mod props;
pub mod runner;
pub mod wctx;
