//! List-based reference model of the tag store (README "Tag Directive", property C14).

use super::grammar::split_lines;

#[derive(Debug, Clone, Default, PartialEq, Eq)]
pub struct Tags {
    pub listening: Option<String>,
    /// (name, raw content) in creation order
    pub stored: Vec<(String, String)>,
}

#[derive(Debug, Clone, Copy, PartialEq, Eq)]
pub enum TagErr {
    Listening,
    Conflict,
}

/// NORMALISE(raw): line endings replaced, presence of a final newline kept
pub fn normalise(raw: &str, le: &str) -> String {
    let mut s = split_lines(raw).join(le);
    if raw.ends_with('\n') {
        s.push_str(le);
    }
    s
}

impl Tags {
    pub fn new() -> Self {
        Self::default()
    }

    pub fn create(&mut self, name: &str) -> Result<(), TagErr> {
        if self.listening.is_some() {
            return Err(TagErr::Listening);
        }
        for (s, _) in &self.stored {
            if s.starts_with(name) || name.starts_with(s.as_str()) {
                return Err(TagErr::Conflict);
            }
        }
        self.listening = Some(name.to_string());
        Ok(())
    }

    /// true if the content was captured
    pub fn try_store(&mut self, raw: &str) -> bool {
        match self.listening.take() {
            Some(n) => {
                self.stored.push((n, raw.to_string()));
                true
            }
            None => false,
        }
    }

    pub fn has_tags(&self) -> bool {
        self.listening.is_some() || !self.stored.is_empty()
    }

    /// INJECT(line)
    pub fn inject(&mut self, line: &str, le: &str) -> String {
        let mut occ: Vec<(usize, usize)> = Vec::new(); // (index in line, index in stored)
        for (k, (name, _)) in self.stored.iter().enumerate() {
            if let Some(i) = line.find(name.as_str()) {
                occ.push((i, k));
            }
        }
        occ.sort();
        let mut out = String::new();
        let mut pos = 0usize;
        let mut used: Vec<usize> = Vec::new();
        for (i, k) in occ {
            if i < pos {
                continue;
            }
            out.push_str(&line[pos..i]);
            out.push_str(&normalise(&self.stored[k].1, le));
            pos = i + self.stored[k].0.len();
            used.push(k);
        }
        out.push_str(&line[pos..]);
        used.sort();
        for k in used.into_iter().rev() {
            self.stored.remove(k);
        }
        out
    }
}
