//! Reference transcription of the directive grammar (README "Syntax", property C15).
//! Shares no code with txtpp.

use serde::{Deserialize, Serialize};

#[derive(Debug, Clone, Copy, PartialEq, Eq, Hash, Serialize, Deserialize, PartialOrd, Ord)]
pub enum Kind {
    Empty,
    Include,
    After,
    Run,
    Temp,
    Tag,
    Write,
}

impl Kind {
    pub fn from_name(name: &str) -> Option<Kind> {
        Some(match name {
            "" => Kind::Empty,
            "include" => Kind::Include,
            "after" => Kind::After,
            "run" => Kind::Run,
            "temp" => Kind::Temp,
            "tag" => Kind::Tag,
            "write" => Kind::Write,
            _ => return None,
        })
    }
    pub fn name(self) -> &'static str {
        match self {
            Kind::Empty => "",
            Kind::Include => "include",
            Kind::After => "after",
            Kind::Run => "run",
            Kind::Temp => "temp",
            Kind::Tag => "tag",
            Kind::Write => "write",
        }
    }
    /// run / temp / write / empty may span several lines
    pub fn multi_line(self) -> bool {
        matches!(self, Kind::Run | Kind::Temp | Kind::Write | Kind::Empty)
    }
}

pub const MARK: &str = "TXTPP#";

#[derive(Debug, Clone, PartialEq, Eq)]
pub struct Dir {
    pub indent: String,
    pub prefix: String,
    pub kind: Kind,
    pub args: Vec<String>,
}

fn is_ws(c: char) -> bool {
    // Unicode White_Space
    c.is_whitespace()
}

fn trim_ws(s: &str) -> &str {
    s.trim_matches(is_ws)
}

fn rtrim_ws(s: &str) -> &str {
    s.trim_end_matches(is_ws)
}

/// DETECT(line): does this line start a directive?
pub fn detect(line: &str) -> Option<Dir> {
    let mut split = line.len();
    for (i, c) in line.char_indices() {
        if !is_ws(c) {
            split = i;
            break;
        }
    }
    let (indent, rest) = line.split_at(split);
    let j = rest.find(MARK)?;
    let prefix = &rest[..j];
    let after = &rest[j + MARK.len()..];
    let (name, arg) = match after.find(' ') {
        Some(sp) => (&after[..sp], trim_ws(&after[sp + 1..])),
        None => (after, ""),
    };
    let kind = Kind::from_name(name)?;
    Some(Dir {
        indent: indent.to_string(),
        prefix: prefix.to_string(),
        kind,
        args: vec![arg.to_string()],
    })
}

#[derive(Debug, Clone, PartialEq, Eq)]
pub enum Cont {
    /// the line continues the directive with this argument
    Arg(String),
    /// the directive ends before this line
    End,
    /// README ("as many spaces as the prefix is long") is ambiguous here: the prefix is
    /// non-ASCII and counting its length in bytes or in characters gives different answers
    Ambiguous,
}

/// CONTINUE(d, line)
pub fn cont(d: &Dir, line: &str) -> Cont {
    if !d.kind.multi_line() {
        return Cont::End;
    }
    let Some(r) = line.strip_prefix(d.indent.as_str()) else {
        return Cont::End;
    };
    if r == rtrim_ws(&d.prefix) {
        return Cont::Arg(String::new());
    }
    if let Some(x) = r.strip_prefix(d.prefix.as_str()) {
        return Cont::Arg(rtrim_ws(x).to_string());
    }
    let nbytes = d.prefix.len();
    let nchars = d.prefix.chars().count();
    let by = |n: usize| -> Option<String> {
        let lead = r.chars().take_while(|c| *c == ' ').count();
        if lead >= n {
            Some(rtrim_ws(&r[n..]).to_string())
        } else {
            None
        }
    };
    let a = by(nbytes);
    if nbytes == nchars {
        return match a {
            Some(x) => Cont::Arg(x),
            None => Cont::End,
        };
    }
    let b = by(nchars);
    if a == b {
        match a {
            Some(x) => Cont::Arg(x),
            None => Cont::End,
        }
    } else {
        Cont::Ambiguous
    }
}

#[derive(Debug, Clone, PartialEq, Eq)]
pub enum Item {
    Text(String),
    /// directive, and whether it was ended by end of file (true) or by a following line (false)
    Dir(Dir, bool),
}

#[derive(Debug, Clone, PartialEq, Eq)]
pub enum ParseStop {
    /// a multi-line-capable directive with empty prefix at (0-based) item position
    Prefixless,
    Ambiguous,
}

/// PARSE(lines): whole-file parse. Items before the stop (if any) are returned as well.
pub fn parse(lines: &[String]) -> (Vec<Item>, Option<ParseStop>) {
    let mut items = Vec::new();
    let mut cur: Option<Dir> = None;
    for line in lines {
        if let Some(d) = cur.as_mut() {
            match cont(d, line) {
                Cont::Arg(a) => {
                    d.args.push(a);
                    continue;
                }
                Cont::Ambiguous => return (items, Some(ParseStop::Ambiguous)),
                Cont::End => {
                    items.push(Item::Dir(cur.take().unwrap(), false));
                }
            }
        }
        match detect(line) {
            Some(d) => {
                if d.kind.multi_line() && d.prefix.is_empty() {
                    return (items, Some(ParseStop::Prefixless));
                }
                cur = Some(d);
            }
            None => items.push(Item::Text(line.clone())),
        }
    }
    if let Some(d) = cur.take() {
        items.push(Item::Dir(d, true));
    }
    (items, None)
}

/// split_lines: pieces between '\n', one trailing '\r' removed from each; the empty piece after
/// a final '\n' is not a line.
pub fn split_lines(s: &str) -> Vec<String> {
    let mut v: Vec<String> = Vec::new();
    if s.is_empty() {
        return v;
    }
    let mut pieces: Vec<&str> = s.split('\n').collect();
    if s.ends_with('\n') {
        pieces.pop();
    }
    for p in pieces {
        v.push(p.strip_suffix('\r').unwrap_or(p).to_string());
    }
    v
}

/// Line ending of a source: that of its first line, LF if it has none.
pub fn line_ending(s: &str) -> &'static str {
    match s.find('\n') {
        Some(i) if i > 0 && s.as_bytes()[i - 1] == b'\r' => "\r\n",
        _ => "\n",
    }
}
