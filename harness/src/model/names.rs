//! Reference model of source/output naming and of path resolution on a virtual tree
//! (README "Include Directive", property C11). Paths are '/'-separated strings relative to
//! the project root ("" = the root itself).

use std::collections::{BTreeMap, BTreeSet};

pub type Tree = BTreeMap<String, Vec<u8>>;

pub fn file_name(p: &str) -> &str {
    match p.rfind('/') {
        Some(i) => &p[i + 1..],
        None => p,
    }
}

pub fn parent(p: &str) -> &str {
    match p.rfind('/') {
        Some(i) => &p[..i],
        None => "",
    }
}

pub fn join(dir: &str, name: &str) -> String {
    if dir.is_empty() {
        name.to_string()
    } else {
        format!("{dir}/{name}")
    }
}

/// (stem, Some(ext)) — the text after the last '.', unless that '.' is the first character
pub fn split_ext(name: &str) -> (&str, Option<&str>) {
    match name.rfind('.') {
        Some(0) | None => (name, None),
        Some(i) => (&name[..i], Some(&name[i + 1..])),
    }
}

pub fn source_shaped_name(name: &str) -> bool {
    match split_ext(name) {
        (_, None) => false,
        (_, Some("txtpp")) => true,
        (stem, Some(_)) => matches!(split_ext(stem), (_, Some("txtpp"))),
    }
}

pub fn source_shaped(p: &str) -> bool {
    source_shaped_name(file_name(p))
}

/// out(foo.ext.txtpp)=foo.ext, out(foo.txtpp)=foo, out(foo.txtpp.ext)=foo.ext
pub fn output_name(name: &str) -> Option<String> {
    if !source_shaped_name(name) {
        return None;
    }
    let (stem, ext) = split_ext(name);
    let ext = ext.unwrap();
    if ext == "txtpp" {
        Some(stem.to_string())
    } else {
        let (s2, _) = split_ext(stem);
        Some(format!("{s2}.{ext}"))
    }
}

pub fn output_of(src: &str) -> Option<String> {
    output_name(file_name(src)).map(|n| join(parent(src), &n))
}

/// candidate source names for a non-source-shaped name, in lookup order
pub fn source_candidates(name: &str) -> Vec<String> {
    match split_ext(name) {
        (stem, Some(e)) => vec![format!("{stem}.{e}.txtpp"), format!("{stem}.txtpp.{e}")],
        (stem, None) => vec![format!("{stem}.txtpp")],
    }
}

/// Virtual file system: files of the tree plus the directories they imply.
#[derive(Debug, Clone)]
pub struct Vfs {
    pub files: Tree,
    pub dirs: BTreeSet<String>,
}

#[derive(Debug, Clone, PartialEq, Eq)]
pub enum Node {
    File(String),
    Dir(String),
    /// does not exist; if the parent directory exists, the normalised path it would have
    Missing(Option<String>),
    /// leaves the project root, or has a shape the model does not interpret
    Outside,
}

impl Vfs {
    pub fn new(files: &Tree, extra_dirs: &BTreeSet<String>) -> Self {
        let mut dirs = BTreeSet::new();
        dirs.insert(String::new());
        let mut add = |p: &str| {
            let mut d = p.to_string();
            while !d.is_empty() {
                dirs.insert(d.clone());
                d = parent(&d).to_string();
            }
        };
        for k in files.keys() {
            add(parent(k));
        }
        for d in extra_dirs {
            add(d);
        }
        Self {
            files: files.clone(),
            dirs,
        }
    }

    pub fn is_file(&self, p: &str) -> bool {
        self.files.contains_key(p)
    }
    pub fn is_dir(&self, p: &str) -> bool {
        self.dirs.contains(p)
    }

    /// Resolve `arg` (relative to directory `dir`, or absolute below `root_abs`) the way a
    /// file system without symlinks does: every intermediate component must be an existing
    /// directory.
    pub fn resolve(&self, root_abs: &str, dir: &str, arg: &str) -> Node {
        if arg.is_empty() {
            return Node::Dir(dir.to_string());
        }
        let (mut cur, rest): (Vec<String>, &str) = if arg.starts_with('/') {
            // absolute
            if arg == root_abs {
                (vec![], "")
            } else if arg.starts_with(root_abs) && arg[root_abs.len()..].starts_with('/') {
                (vec![], &arg[root_abs.len() + 1..])
            } else {
                return Node::Outside;
            }
        } else {
            (
                dir.split('/').filter(|s| !s.is_empty()).map(String::from).collect(),
                arg,
            )
        };
        let comps: Vec<&str> = rest.split('/').collect();
        let n = comps.len();
        for (i, c) in comps.iter().enumerate() {
            let last = i + 1 == n;
            match *c {
                "" | "." => {
                    // "a//b", "a/./b", trailing "/": the path so far must be a directory
                    if !self.is_dir(&cur.join("/")) {
                        return Node::Missing(None);
                    }
                }
                ".." => {
                    if !self.is_dir(&cur.join("/")) {
                        return Node::Missing(None);
                    }
                    if cur.pop().is_none() {
                        return Node::Outside;
                    }
                }
                name => {
                    if !self.is_dir(&cur.join("/")) {
                        return Node::Missing(None);
                    }
                    cur.push(name.to_string());
                    if !last && !self.is_dir(&cur.join("/")) {
                        return Node::Missing(None);
                    }
                }
            }
        }
        let p = cur.join("/");
        if self.is_file(&p) {
            // a trailing "/" or "/." on a file does not resolve
            match comps.last() {
                Some(&"") | Some(&".") => Node::Missing(None),
                _ => Node::File(p),
            }
        } else if self.is_dir(&p) {
            Node::Dir(p)
        } else {
            Node::Missing(Some(p))
        }
    }

    /// source_of(p): the .txtpp source that generates file path `p` (normalised), if any
    pub fn source_of(&self, p: &str) -> Option<String> {
        let name = file_name(p);
        if name.is_empty() || source_shaped_name(name) {
            return None;
        }
        for c in source_candidates(name) {
            let cand = join(parent(p), &c);
            if self.is_file(&cand) {
                return Some(cand);
            }
        }
        None
    }
}
