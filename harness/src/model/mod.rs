//! Reference model of the README semantics (DESIGN §4.2): a pure function from a virtual tree
//! to the expected generated files or the expected error. Whole-file, functional; shares no
//! code with txtpp.

pub mod grammar;
pub mod names;
pub mod shell;
pub mod tags;

use grammar::{Item, Kind, ParseStop};
use names::{Node, Tree, Vfs};
use serde::{Deserialize, Serialize};
use std::collections::{BTreeMap, BTreeSet, HashMap};
use std::rc::Rc;

#[derive(Debug, Clone, Copy, PartialEq, Eq, Hash, Serialize, Deserialize, PartialOrd, Ord)]
pub enum ErrKind {
    IncludeMissing,
    IncludeIsDir,
    IncludeNotUtf8,
    CmdStatus,
    TagListening,
    TagConflict,
    TagUnused,
    Prefixless,
    TempTxtpp,
    TempTarget,
    Cycle,
    InputNoSource,
    InputMissing,
    /// a dependency failed
    Dep,
}

#[derive(Debug, Clone)]
pub struct ModelCfg {
    /// absolute path of the project root (no trailing slash)
    pub root_abs: String,
    pub trailing_newline: bool,
    /// absolute directory (outside the tree) that marker commands append to
    pub marker_dir: Option<String>,
}

#[derive(Debug, Clone, Default)]
pub struct SrcEval {
    pub output: String,
    /// temp files written: normalised path -> content
    pub temps: BTreeMap<String, String>,
    /// sources this file depends on (direct), in order of first appearance
    pub deps: Vec<String>,
    /// marker ids executed before the first dependency directive (run in both passes if deps non-empty)
    pub markers_pre: Vec<String>,
    /// marker ids executed after the first dependency directive
    pub markers_post: Vec<String>,
    pub features: BTreeSet<&'static str>,
    pub le: &'static str,
    /// generated paths (of this and transitively of dependencies) this file may read
    pub visible: BTreeMap<String, String>,
}

#[derive(Debug, Clone)]
pub enum SrcResult {
    Ok(Rc<SrcEval>),
    Err(ErrKind),
    Excluded(String),
}

pub struct Model<'a> {
    pub cfg: &'a ModelCfg,
    pub vfs: Vfs,
    /// every path that some source of the tree could generate (outputs and temp targets)
    pub potential: BTreeSet<String>,
    pub sources: BTreeSet<String>,
    memo: HashMap<String, SrcResult>,
    stack: Vec<String>,
    /// global domain problem found while scanning the tree
    pub tree_problem: Option<String>,
}

fn abs_dir(root_abs: &str, dir: &str) -> String {
    if dir.is_empty() {
        root_abs.to_string()
    } else {
        format!("{root_abs}/{dir}")
    }
}

/// why a source text is outside the documented domain, if it is
pub fn text_problem(bytes: &[u8]) -> Option<String> {
    let Ok(s) = std::str::from_utf8(bytes) else {
        return Some("source is not UTF-8".into());
    };
    if s.contains('\0') {
        return Some("source contains NUL".into());
    }
    let b = s.as_bytes();
    for i in 0..b.len() {
        if b[i] == b'\r' && b.get(i + 1) != Some(&b'\n') {
            return Some("source contains CR not followed by LF".into());
        }
    }
    None
}

impl<'a> Model<'a> {
    pub fn new(tree: &Tree, extra_dirs: &BTreeSet<String>, cfg: &'a ModelCfg) -> Self {
        let vfs = Vfs::new(tree, extra_dirs);
        let mut m = Model {
            cfg,
            vfs,
            potential: BTreeSet::new(),
            sources: BTreeSet::new(),
            memo: HashMap::new(),
            stack: vec![],
            tree_problem: None,
        };
        m.scan_tree();
        m
    }

    /// Collect sources and potential generated paths; detect collisions (out of domain).
    fn scan_tree(&mut self) {
        let files: Vec<String> = self.vfs.files.keys().cloned().collect();
        let mut owner: BTreeMap<String, String> = BTreeMap::new();
        let mut problem: Option<String> = None;
        for f in &files {
            if names::source_shaped(f) {
                self.sources.insert(f.clone());
            }
        }
        for src in self.sources.clone() {
            let out = names::output_of(&src).unwrap();
            if names::source_shaped(&out) {
                problem.get_or_insert(format!("output of {src} is itself source-shaped"));
            }
            if let Some(o) = owner.insert(out.clone(), src.clone()) {
                problem.get_or_insert(format!("{o} and {src} generate the same path {out}"));
            }
            // temp targets, syntactically
            let bytes = &self.vfs.files[&src];
            if text_problem(bytes).is_some() {
                continue; // reported when (if) the source is evaluated
            }
            let text = std::str::from_utf8(bytes).unwrap();
            let lines = grammar::split_lines(text);
            // clean-mode reading (a prefix-less directive line is skipped, parsing goes on): a
            // superset of the directives a build sees, and what `clean` would delete
            let (items, ambiguous) = parse_lenient_ex(&lines);
            if ambiguous {
                // the rest of this source cannot be scanned for temp targets
                problem.get_or_insert(format!(
                    "{src}: continuation by spaces after a non-ASCII prefix is ambiguous in the README"
                ));
            }
            for it in &items {
                if let Item::Dir(d, _) = it {
                    if d.kind == Kind::Temp {
                        let arg = &d.args[0];
                        if names::source_shaped_name(names::file_name(arg)) {
                            continue;
                        }
                        match self.vfs.resolve(&self.cfg.root_abs, names::parent(&src), arg) {
                            Node::File(p) | Node::Missing(Some(p)) => {
                                if let Some(o) = owner.insert(p.clone(), src.clone()) {
                                    if o != src {
                                        problem.get_or_insert(format!(
                                            "{o} and {src} generate the same path {p}"
                                        ));
                                    } else if Some(&p) == names::output_of(&src).as_ref() {
                                        problem.get_or_insert(format!("{src} writes a temp file over its own output"));
                                    }
                                }
                            }
                            _ => {}
                        }
                    }
                }
            }
        }
        for (p, o) in &owner {
            if self.sources.contains(p) {
                problem.get_or_insert(format!("{o} generates a path that is a source: {p}"));
            }
            if self.vfs.files.contains_key(p) {
                problem.get_or_insert(format!("generated path {p} already exists in the pristine tree"));
            }
            if self.vfs.dirs.contains(p) {
                problem.get_or_insert(format!("generated path {p} is a directory"));
            }
        }
        self.potential = owner.keys().cloned().collect();
        self.tree_problem = problem;
    }

    /// Evaluate one source (memoised, dependency-first).
    pub fn eval(&mut self, src: &str) -> SrcResult {
        if let Some(r) = self.memo.get(src) {
            return r.clone();
        }
        if self.stack.iter().any(|s| s == src) {
            return SrcResult::Err(ErrKind::Cycle);
        }
        self.stack.push(src.to_string());
        let r = self.eval_inner(src);
        self.stack.pop();
        self.memo.insert(src.to_string(), r.clone());
        r
    }

    fn eval_inner(&mut self, src: &str) -> SrcResult {
        if let Some(p) = &self.tree_problem {
            return SrcResult::Excluded(p.clone());
        }
        let bytes = self.vfs.files[src].clone();
        if let Some(p) = text_problem(&bytes) {
            return SrcResult::Excluded(format!("{src}: {p}"));
        }
        let text = String::from_utf8(bytes).unwrap();
        let le = grammar::line_ending(&text);
        let lines = grammar::split_lines(&text);
        let (items, stop) = grammar::parse(&lines);
        if stop == Some(ParseStop::Ambiguous) {
            return SrcResult::Excluded(format!(
                "{src}: continuation by spaces after a non-ASCII prefix is ambiguous in the README"
            ));
        }
        let dir = names::parent(src).to_string();
        let cwd_abs = abs_dir(&self.cfg.root_abs, &dir);
        let own_out = names::output_of(src).unwrap();

        let mut ev = SrcEval {
            le,
            ..Default::default()
        };
        let mut tags = tags::Tags::new();
        // chunks: (text, separator that follows it)
        let mut chunks: Vec<(String, &'static str)> = Vec::new();
        let mut seen_dep = false;
        let mut exec_with_output = 0usize;

        if text.contains("\r\n") && text.replace("\r\n", "").contains('\n') {
            ev.features.insert("crlf_mix_source");
        }

        for (idx, it) in items.iter().enumerate() {
            match it {
                Item::Text(l) => {
                    let had = tags.stored.len();
                    let inj = tags.inject(l, le);
                    if tags.stored.len() != had {
                        ev.features.insert("tag_inject");
                    }
                    chunks.push((inj, le));
                }
                Item::Dir(d, at_eof) => {
                    for c in d.indent.chars() {
                        if c != ' ' && c != '\t' {
                            return SrcResult::Excluded(format!(
                                "{src}: directive indentation contains a blank other than space/tab"
                            ));
                        }
                    }
                    if d.args.len() > 1 {
                        ev.features.insert("multi_line");
                    }
                    if !d.indent.is_empty() {
                        ev.features.insert("indent");
                    }
                    if *at_eof {
                        ev.features.insert("dir_at_eof");
                    }
                    // EXEC
                    let raw: Option<String> = match d.kind {
                        Kind::Empty => None,
                        Kind::After | Kind::Include => {
                            let arg = &d.args[0];
                            let node = self.vfs.resolve(&self.cfg.root_abs, &dir, arg);
                            let p = match &node {
                                Node::Outside => {
                                    return SrcResult::Excluded(format!("{src}: path outside the project: {arg:?}"))
                                }
                                Node::File(p) => Some(p.clone()),
                                Node::Missing(Some(p)) => Some(p.clone()),
                                Node::Missing(None) => None,
                                Node::Dir(p) => {
                                    if !p.is_empty() && self.vfs.source_of(p).is_some() {
                                        return SrcResult::Excluded(format!("{src}: directory {p} shadows a source"));
                                    }
                                    None
                                }
                            };
                            let dep = p.as_ref().and_then(|p| self.vfs.source_of(p));
                            if let Some(depsrc) = dep {
                                // dependency: must be complete before this file's final pass
                                seen_dep = true;
                                ev.features.insert("dep");
                                if !ev.deps.contains(&depsrc) {
                                    ev.deps.push(depsrc.clone());
                                }
                                match self.eval(&depsrc) {
                                    SrcResult::Ok(de) => {
                                        let out_path = names::output_of(&depsrc).unwrap();
                                        for (k, v) in &de.visible {
                                            ev.visible.insert(k.clone(), v.clone());
                                        }
                                        if !de.deps.is_empty() {
                                            ev.features.insert("nested_dep");
                                        }
                                        let content = de.output.clone();
                                        ev.visible.insert(out_path, content.clone());
                                        if d.kind == Kind::Include {
                                            Some(content)
                                        } else {
                                            None
                                        }
                                    }
                                    SrcResult::Err(ErrKind::Cycle) => return SrcResult::Err(ErrKind::Cycle),
                                    SrcResult::Err(_) => return SrcResult::Err(ErrKind::Dep),
                                    SrcResult::Excluded(r) => return SrcResult::Excluded(r),
                                }
                            } else if d.kind == Kind::After {
                                match node {
                                    Node::File(_) | Node::Dir(_) => None,
                                    _ => {
                                        return SrcResult::Excluded(format!(
                                            "{src}: `after` of a path that does not exist (README: behaves like include; implementation accepts)"
                                        ))
                                    }
                                }
                            } else {
                                // plain include
                                match node {
                                    Node::Dir(_) => return SrcResult::Err(ErrKind::IncludeIsDir),
                                    Node::Missing(None) => return SrcResult::Err(ErrKind::IncludeMissing),
                                    Node::File(p) | Node::Missing(Some(p)) => {
                                        match self.read_path(&p, &ev, src) {
                                            shell::Read::Bytes(b) => match String::from_utf8(b) {
                                                Ok(s) => Some(s),
                                                Err(_) => return SrcResult::Err(ErrKind::IncludeNotUtf8),
                                            },
                                            shell::Read::Missing => return SrcResult::Err(ErrKind::IncludeMissing),
                                            shell::Read::IsDir => return SrcResult::Err(ErrKind::IncludeIsDir),
                                            shell::Read::Excluded(r) => return SrcResult::Excluded(r),
                                        }
                                    }
                                    Node::Outside => unreachable!(),
                                }
                            }
                        }
                        Kind::Run => {
                            let cmd = d.args.join(" ");
                            let root_abs = self.cfg.root_abs.clone();
                            let md = self.cfg.marker_dir.clone();
                            let evref = &ev;
                            let this = &*self;
                            let mut rd = |path: &str| -> shell::Read {
                                match this.vfs.resolve(&root_abs, &dir, path) {
                                    Node::Outside => shell::Read::Excluded(format!("{src}: command reads outside the project: {path}")),
                                    Node::Dir(_) => shell::Read::IsDir,
                                    Node::Missing(None) => shell::Read::Missing,
                                    Node::File(p) | Node::Missing(Some(p)) => this.read_path(&p, evref, src),
                                }
                            };
                            match shell::run(&cmd, &cwd_abs, md.as_deref(), &mut rd) {
                                shell::Sh::Unknown(r) => return SrcResult::Excluded(format!("{src}: {r}")),
                                shell::Sh::Done(r) => {
                                    if seen_dep {
                                        ev.markers_post.extend(r.markers.iter().cloned());
                                    } else {
                                        ev.markers_pre.extend(r.markers.iter().cloned());
                                    }
                                    if r.status != 0 {
                                        return SrcResult::Err(ErrKind::CmdStatus);
                                    }
                                    if r.stdout.contains('\r') && text_problem(r.stdout.as_bytes()).is_some() {
                                        return SrcResult::Excluded(format!("{src}: command output with lone CR"));
                                    }
                                    Some(r.stdout)
                                }
                            }
                        }
                        Kind::Write => Some(d.args.join("\n")),
                        Kind::Temp => {
                            let arg = &d.args[0];
                            if names::source_shaped_name(names::file_name(arg)) {
                                return SrcResult::Err(ErrKind::TempTxtpp);
                            }
                            match self.vfs.resolve(&self.cfg.root_abs, &dir, arg) {
                                Node::Outside => {
                                    return SrcResult::Excluded(format!("{src}: temp target outside the project"))
                                }
                                Node::Dir(_) | Node::Missing(None) => return SrcResult::Err(ErrKind::TempTarget),
                                Node::File(p) | Node::Missing(Some(p)) => {
                                    if p == own_out {
                                        return SrcResult::Excluded(format!("{src}: temp over own output"));
                                    }
                                    let content = d.args[1..].join(le);
                                    ev.temps.insert(p.clone(), content.clone());
                                    ev.visible.insert(p, content);
                                    ev.features.insert("temp");
                                }
                            }
                            None
                        }
                        Kind::Tag => {
                            let name = &d.args[0];
                            if name.is_empty() {
                                return SrcResult::Excluded(format!("{src}: empty tag name"));
                            }
                            match tags.create(name) {
                                Ok(()) => {}
                                Err(tags::TagErr::Listening) => return SrcResult::Err(ErrKind::TagListening),
                                Err(tags::TagErr::Conflict) => return SrcResult::Err(ErrKind::TagConflict),
                            }
                            None
                        }
                    };
                    if let Some(raw) = raw {
                        exec_with_output += 1;
                        if raw.contains("\r\n") != (le == "\r\n") && raw.contains('\n') {
                            ev.features.insert("le_normalised");
                        }
                        if tags.try_store(&raw) {
                            ev.features.insert("tag_store");
                        } else {
                            let mut f: String = grammar::split_lines(&raw)
                                .iter()
                                .map(|l| format!("{}{}", d.indent, l))
                                .collect::<Vec<_>>()
                                .join(le);
                            if raw.ends_with('\n') {
                                f.push_str(le);
                            } else if !*at_eof && matches!(items.get(idx + 1), Some(Item::Text(_))) {
                                ev.features.insert("tail_join");
                            }
                            chunks.push((f, if *at_eof { le } else { "" }));
                        }
                    }
                }
            }
        }
        match stop {
            Some(ParseStop::Prefixless) => return SrcResult::Err(ErrKind::Prefixless),
            Some(ParseStop::Ambiguous) => unreachable!(),
            None => {}
        }
        if tags.has_tags() {
            return SrcResult::Err(ErrKind::TagUnused);
        }
        let n = chunks.len();
        let mut out = String::new();
        for (i, (c, s)) in chunks.iter().enumerate() {
            out.push_str(c);
            if i + 1 < n || self.cfg.trailing_newline {
                out.push_str(s);
            }
        }
        if exec_with_output > 0 {
            ev.features.insert("exec_output");
        }
        ev.output = out;
        SrcResult::Ok(Rc::new(ev))
    }

    /// Read a normalised path as seen by source `src` at this point of its evaluation.
    fn read_path(&self, p: &str, ev: &SrcEval, src: &str) -> shell::Read {
        if let Some(c) = ev.visible.get(p) {
            return shell::Read::Bytes(c.clone().into_bytes());
        }
        if self.potential.contains(p) {
            return shell::Read::Excluded(format!(
                "{src}: reads generated file {p} without a preceding dependency directive / before writing it"
            ));
        }
        if self.vfs.is_dir(p) {
            return shell::Read::IsDir;
        }
        match self.vfs.files.get(p) {
            Some(b) => shell::Read::Bytes(b.clone()),
            None => shell::Read::Missing,
        }
    }

    /// All sources named by include/after directives of `src`, syntactically (what the first
    /// pass collects), whether or not the file evaluates successfully.
    pub fn syntactic_deps(&self, src: &str) -> Vec<String> {
        let mut v = vec![];
        let Some(bytes) = self.vfs.files.get(src) else { return v };
        let Ok(text) = std::str::from_utf8(bytes) else { return v };
        let lines = grammar::split_lines(text);
        let (items, _) = grammar::parse(&lines);
        let dir = names::parent(src);
        for it in items {
            if let Item::Dir(d, _) = it {
                if matches!(d.kind, Kind::Include | Kind::After) {
                    let p = match self.vfs.resolve(&self.cfg.root_abs, dir, &d.args[0]) {
                        Node::File(p) | Node::Missing(Some(p)) => p,
                        _ => continue,
                    };
                    if let Some(s) = self.vfs.source_of(&p) {
                        if !v.contains(&s) {
                            v.push(s);
                        }
                    }
                }
            }
        }
        v
    }

    /// Temp targets (normalised) named by `src`, syntactically; `lenient` = clean-mode parse
    pub fn syntactic_temps(&self, src: &str) -> Vec<String> {
        let mut v = vec![];
        let Some(bytes) = self.vfs.files.get(src) else { return v };
        let Ok(text) = std::str::from_utf8(bytes) else { return v };
        let lines = grammar::split_lines(text);
        let items = parse_lenient(&lines);
        let dir = names::parent(src);
        for it in items {
            if let Item::Dir(d, _) = it {
                if d.kind == Kind::Temp && !names::source_shaped_name(names::file_name(&d.args[0])) {
                    if let Node::File(p) | Node::Missing(Some(p)) =
                        self.vfs.resolve(&self.cfg.root_abs, dir, &d.args[0])
                    {
                        if !v.contains(&p) {
                            v.push(p);
                        }
                    }
                }
            }
        }
        v
    }
}

/// Clean-mode view of a file: a prefix-less multi-line directive line is skipped (its error is
/// ignored) and parsing continues with the next line.
pub fn parse_lenient(lines: &[String]) -> Vec<Item> {
    parse_lenient_ex(lines).0
}

/// as `parse_lenient`; the flag says that parsing stopped early at a continuation line the
/// README leaves ambiguous (the items are then incomplete)
pub fn parse_lenient_ex(lines: &[String]) -> (Vec<Item>, bool) {
    let mut out = vec![];
    let mut start = 0usize;
    loop {
        let (items, stop) = grammar::parse(&lines[start..]);
        match stop {
            None => {
                out.extend(items);
                return (out, false);
            }
            Some(ParseStop::Ambiguous) => {
                out.extend(items);
                return (out, true);
            }
            Some(ParseStop::Prefixless) => {
                // count the lines consumed by the returned items, then skip the offending line
                let mut consumed = 0usize;
                for it in &items {
                    consumed += match it {
                        Item::Text(_) => 1,
                        Item::Dir(d, _) => d.args.len(),
                    };
                }
                out.extend(items);
                start += consumed + 1;
                if start >= lines.len() {
                    return (out, false);
                }
            }
        }
    }
}

// ---------------------------------------------------------------------------------------------
// project level

#[derive(Debug, Clone, PartialEq, Eq, Serialize, Deserialize)]
pub enum Verdict {
    Ok,
    Err(ErrKind, String),
    Excluded(String),
}

#[derive(Debug, Clone)]
pub struct Expect {
    pub verdict: Verdict,
    /// generated files (outputs and temp files) of a successful build: path -> bytes
    pub files: BTreeMap<String, String>,
    /// outputs only: source -> output path
    pub outputs: BTreeMap<String, String>,
    /// sources processed by a successful build (inputs closed under dependency)
    pub processed: BTreeSet<String>,
    /// sources the run may touch whatever the verdict (syntactic closure)
    pub may_process: BTreeSet<String>,
    /// expected executions per marker id for a successful build: (min, max)
    pub markers: BTreeMap<String, (u32, u32)>,
    pub features: BTreeSet<&'static str>,
    /// first failing source and error, every failing source of the closure
    pub failing: BTreeMap<String, ErrKind>,
    /// whatever the verdict: members of the closure that evaluate successfully
    /// (source -> (output path, output bytes, temp files))
    pub ok_sources: BTreeMap<String, (String, String, BTreeMap<String, String>)>,
}

#[derive(Debug, Clone)]
pub enum InputRes {
    Sources(BTreeSet<String>),
    Err(ErrKind, String),
    Excluded(String),
}

impl<'a> Model<'a> {
    /// INPUTS: the sources named by the input list
    pub fn resolve_inputs(&self, inputs: &[String], recursive: bool) -> InputRes {
        let mut set = BTreeSet::new();
        for s in inputs {
            match self.vfs.resolve(&self.cfg.root_abs, "", s) {
                Node::Outside => return InputRes::Excluded(format!("input outside the project: {s}")),
                Node::Dir(d) => {
                    for f in self.vfs.files.keys() {
                        if !names::source_shaped(f) {
                            continue;
                        }
                        let par = names::parent(f);
                        let inside = if recursive {
                            d.is_empty() || par == d || par.starts_with(&format!("{d}/"))
                        } else {
                            par == d
                        };
                        if inside {
                            set.insert(f.clone());
                        }
                    }
                }
                Node::File(p) | Node::Missing(Some(p)) => {
                    if names::source_shaped(&p) {
                        if self.vfs.is_file(&p) {
                            set.insert(p);
                        } else {
                            return InputRes::Err(ErrKind::InputMissing, s.clone());
                        }
                    } else {
                        match self.vfs.source_of(&p) {
                            Some(src) => {
                                set.insert(src);
                            }
                            None => return InputRes::Err(ErrKind::InputNoSource, s.clone()),
                        }
                    }
                }
                Node::Missing(None) => {
                    // parent directory missing: neither the file nor a source can exist
                    let name = names::file_name(s);
                    if name.is_empty() || name == "." || name == ".." {
                        return InputRes::Excluded(format!("input of unusual shape: {s}"));
                    }
                    if names::source_shaped_name(name) {
                        return InputRes::Err(ErrKind::InputMissing, s.clone());
                    }
                    return InputRes::Err(ErrKind::InputNoSource, s.clone());
                }
            }
        }
        InputRes::Sources(set)
    }

    /// Expected result of `build` (also of `--needed`) for these inputs, from a pristine tree.
    pub fn build(&mut self, inputs: &[String], recursive: bool) -> Expect {
        let mut ex = Expect {
            verdict: Verdict::Ok,
            files: BTreeMap::new(),
            outputs: BTreeMap::new(),
            processed: BTreeSet::new(),
            may_process: BTreeSet::new(),
            markers: BTreeMap::new(),
            features: BTreeSet::new(),
            failing: BTreeMap::new(),
            ok_sources: BTreeMap::new(),
        };
        if let Some(p) = &self.tree_problem {
            ex.verdict = Verdict::Excluded(p.clone());
            return ex;
        }
        let roots = match self.resolve_inputs(inputs, recursive) {
            InputRes::Sources(s) => s,
            InputRes::Err(k, s) => {
                ex.verdict = Verdict::Err(k, s);
                return ex;
            }
            InputRes::Excluded(r) => {
                ex.verdict = Verdict::Excluded(r);
                return ex;
            }
        };
        // syntactic closure
        let mut todo: Vec<String> = roots.iter().cloned().collect();
        while let Some(s) = todo.pop() {
            if ex.may_process.insert(s.clone()) {
                for d in self.syntactic_deps(&s) {
                    todo.push(d);
                }
            }
        }
        // evaluate
        let mut excluded: Option<String> = None;
        let all: Vec<String> = ex.may_process.iter().cloned().collect();
        for s in &all {
            match self.eval(s) {
                SrcResult::Ok(ev) => {
                    ex.ok_sources.insert(
                        s.clone(),
                        (names::output_of(s).unwrap(), ev.output.clone(), ev.temps.clone()),
                    );
                }
                SrcResult::Err(k) => {
                    ex.failing.insert(s.clone(), k);
                }
                SrcResult::Excluded(r) => {
                    excluded.get_or_insert(r);
                }
            }
        }
        if let Some(r) = excluded {
            ex.verdict = Verdict::Excluded(r);
            return ex;
        }
        if let Some((s, k)) = ex
            .failing
            .iter()
            .find(|(_, k)| **k != ErrKind::Dep)
            .or(ex.failing.iter().next())
        {
            ex.verdict = Verdict::Err(*k, s.clone());
            return ex;
        }
        // success: closure over real deps equals the syntactic closure when nothing failed
        for s in &all {
            let SrcResult::Ok(ev) = self.eval(s) else { unreachable!() };
            ex.processed.insert(s.clone());
            let out = names::output_of(s).unwrap();
            ex.outputs.insert(s.clone(), out.clone());
            ex.files.insert(out, ev.output.clone());
            for (p, c) in &ev.temps {
                ex.files.insert(p.clone(), c.clone());
            }
            let twice = !ev.deps.is_empty();
            for m in &ev.markers_pre {
                let e = ex.markers.entry(m.clone()).or_insert((0, 0));
                // commands before the first dependency directive of a file with dependencies
                // legitimately run in both passes
                e.0 += 1;
                e.1 += if twice { 2 } else { 1 };
            }
            for m in &ev.markers_post {
                let e = ex.markers.entry(m.clone()).or_insert((0, 0));
                e.0 += 1;
                e.1 += 1;
            }
            for f in &ev.features {
                ex.features.insert(f);
            }
        }
        ex
    }
}
