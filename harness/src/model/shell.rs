//! Interpreter for the closed command vocabulary the generators use in `run` directives
//! (DESIGN §4.1): atoms separated by ';' —
//!   echo WORD...            words joined by single spaces + "\n"
//!   echo WORD >> /abs/path  execution marker (no stdout)
//!   printf 'FMT'            FMT without ' % ; and with the escapes \n \r \t \\
//!   cat PATH | pwd | true | false | exit N
//! Anything else is reported as Unknown, which makes the case out of domain.

#[derive(Debug, Clone, PartialEq, Eq)]
pub enum Read {
    Bytes(Vec<u8>),
    Missing,
    IsDir,
    /// reading this path is outside the documented domain (reason)
    Excluded(String),
}

#[derive(Debug, Clone, PartialEq, Eq)]
pub struct ShResult {
    pub stdout: String,
    pub status: i32,
    /// marker ids appended, in order
    pub markers: Vec<String>,
}

#[derive(Debug, Clone, PartialEq, Eq)]
pub enum Sh {
    Done(ShResult),
    Unknown(String),
}

fn word_ok(w: &str) -> bool {
    !w.is_empty()
        && !w.starts_with('-')
        && w.chars()
            .all(|c| c.is_ascii_alphanumeric() || "_.:,/=+@-".contains(c))
}

/// split on blanks, honouring "..." and '...' (no escapes, no expansions inside)
fn tokenize(s: &str) -> Option<Vec<(String, bool)>> {
    let mut out: Vec<(String, bool)> = vec![];
    let mut cur = String::new();
    let mut quoted = false;
    let mut in_tok = false;
    let mut it = s.chars();
    while let Some(c) = it.next() {
        match c {
            ' ' | '\t' => {
                if in_tok {
                    out.push((std::mem::take(&mut cur), quoted));
                    in_tok = false;
                    quoted = false;
                }
            }
            '"' | '\'' => {
                in_tok = true;
                quoted = true;
                loop {
                    let d = it.next()?;
                    if d == c {
                        break;
                    }
                    if c == '"' && (d == '$' || d == '`' || d == '\\' || d == '!') {
                        return None;
                    }
                    if d == '\\' {
                        return None; // dash's echo interprets backslash escapes
                    }
                    cur.push(d);
                }
            }
            '$' | '`' | '\\' | '&' | '|' | '<' | '>' | '(' | ')' | '*' | '?' | '[' | '~' | '#' | '!' | '{' => return None,
            c => {
                in_tok = true;
                cur.push(c);
            }
        }
    }
    if in_tok {
        out.push((cur, quoted));
    }
    Some(out)
}

fn unescape_printf(fmt: &str) -> Option<String> {
    let mut out = String::new();
    let mut it = fmt.chars();
    while let Some(c) = it.next() {
        match c {
            '\'' | '%' | ';' => return None,
            '\\' => match it.next()? {
                'n' => out.push('\n'),
                'r' => out.push('\r'),
                't' => out.push('\t'),
                '\\' => out.push('\\'),
                _ => return None,
            },
            c => out.push(c),
        }
    }
    Some(out)
}

/// `read(path)` is called with the path exactly as written in the command (relative to the
/// working directory of the command, or absolute).
pub fn run(cmd: &str, cwd_abs: &str, marker_dir: Option<&str>, read: &mut dyn FnMut(&str) -> Read) -> Sh {
    let mut res = ShResult {
        stdout: String::new(),
        status: 0,
        markers: vec![],
    };
    if cmd.trim().is_empty() {
        return Sh::Done(res);
    }
    for atom in cmd.split(';') {
        let atom = atom.trim_matches(|c| c == ' ' || c == '\t');
        let unknown = || Sh::Unknown(format!("command outside vocabulary: {atom:?}"));
        if atom.is_empty() {
            return unknown();
        }
        if let Some(rest) = atom.strip_prefix("printf ") {
            let rest = rest.trim_matches(|c| c == ' ' || c == '\t');
            let Some(inner) = rest.strip_prefix('\'').and_then(|r| r.strip_suffix('\'')) else {
                return unknown();
            };
            let Some(text) = unescape_printf(inner) else {
                return unknown();
            };
            res.stdout.push_str(&text);
            res.status = 0;
            continue;
        }
        // echo with quoted arguments and -n (dash's builtin): echo [-n] (WORD | "text" | 'text')...
        if atom.starts_with("echo ") && (atom.contains('"') || atom.contains('\'') || atom.starts_with("echo -n")) {
            let Some(toks) = tokenize(&atom[5..]) else { return unknown() };
            let mut toks = toks.as_slice();
            let mut newline = true;
            if let Some((t, false)) = toks.first().map(|t| (t.0.as_str(), t.1)) {
                if t == "-n" {
                    newline = false;
                    toks = &toks[1..];
                }
            }
            if !toks.iter().all(|(t, quoted)| *quoted || word_ok(t)) {
                return unknown();
            }
            res.stdout.push_str(&toks.iter().map(|t| t.0.as_str()).collect::<Vec<_>>().join(" "));
            if newline {
                res.stdout.push('\n');
            }
            res.status = 0;
            continue;
        }
        let words: Vec<&str> = atom.split([' ', '\t']).filter(|w| !w.is_empty()).collect();
        match words.as_slice() {
            ["echo", w, ">>", path] => {
                let Some(md) = marker_dir else { return unknown() };
                if !word_ok(w) || !path.starts_with(&format!("{md}/")) || !word_ok(path) {
                    return unknown();
                }
                res.markers.push(w.to_string());
                res.status = 0;
            }
            ["echo", ws @ ..] => {
                if !ws.iter().all(|w| word_ok(w)) {
                    return unknown();
                }
                res.stdout.push_str(&ws.join(" "));
                res.stdout.push('\n');
                res.status = 0;
            }
            ["cat", path] => {
                if !word_ok(path) {
                    return unknown();
                }
                match read(path) {
                    Read::Bytes(b) => {
                        res.stdout.push_str(&String::from_utf8_lossy(&b));
                        res.status = 0;
                    }
                    Read::Missing | Read::IsDir => res.status = 1,
                    Read::Excluded(r) => return Sh::Unknown(r),
                }
            }
            ["pwd"] => {
                res.stdout.push_str(cwd_abs);
                res.stdout.push('\n');
                res.status = 0;
            }
            ["true"] => res.status = 0,
            ["false"] => res.status = 1,
            ["exit", n] => {
                let Ok(n) = n.parse::<u8>() else { return unknown() };
                res.status = n as i32;
                return Sh::Done(res);
            }
            _ => return unknown(),
        }
    }
    Sh::Done(res)
}
