//! Orchestrator: regress replays, worker processes, journal recovery, watchdog, evidence,
//! known findings, exit status.

use crate::props::{self, PropMeta};
use crate::wctx::{Stats, Violation};
use serde::Deserialize;
use serde_json::{json, Value};
use std::collections::hash_map::DefaultHasher;
use std::hash::{Hash, Hasher};
use std::io::Read;
use std::path::{Path, PathBuf};
use std::process::{Child, Command, Stdio};
use std::time::{Duration, Instant};

pub const VERIF_DIR: &str = "/verif";

/// where evidence/ and replays/ go (VFY_OUT overrides it for development runs against a scratch copy of the repository)
pub fn out_dir() -> String {
    std::env::var("VFY_OUT").unwrap_or_else(|_| VERIF_DIR.to_string())
}

#[derive(Debug, Deserialize)]
struct KnownFinding {
    status: String,
    property: String,
    signature: String,
    #[serde(default)]
    what: String,
}

fn load_known() -> Vec<KnownFinding> {
    let p = Path::new(VERIF_DIR).join("known_findings.json");
    match std::fs::read(&p) {
        Ok(b) => serde_json::from_slice::<Vec<KnownFinding>>(&b).unwrap_or_else(|e| {
            eprintln!("known_findings.json is not valid: {e}");
            std::process::exit(2);
        }),
        Err(_) => vec![],
    }
}

fn nworkers() -> usize {
    let n = std::thread::available_parallelism().map(|n| n.get()).unwrap_or(4);
    std::env::var("VERIF_WORKERS")
        .ok()
        .and_then(|s| s.parse().ok())
        .unwrap_or(n.min(16))
}

struct Worker {
    shard: usize,
    child: Child,
    out: PathBuf,
    journal: PathBuf,
    last_beat: Instant,
    last_mtime: Option<std::time::SystemTime>,
}

/// run one case alone in a fresh child; returns (exit code or None if killed by timeout/signal, stdout)
fn replay_alone(prop: &str, case_file: &Path, limit: Duration) -> (Option<i32>, String, bool) {
    let exe = std::env::current_exe().expect("current_exe");
    let mut child = Command::new(exe)
        .args(["replay-case", prop])
        .arg(case_file)
        .stdout(Stdio::piped())
        .stderr(Stdio::null())
        .spawn()
        .expect("spawn replay child");
    let start = Instant::now();
    let mut timed_out = false;
    let status = loop {
        match child.try_wait() {
            Ok(Some(s)) => break Some(s),
            Ok(None) => {
                if start.elapsed() > limit {
                    let _ = child.kill();
                    let _ = child.wait();
                    timed_out = true;
                    break None;
                }
                std::thread::sleep(Duration::from_millis(20));
            }
            Err(_) => break None,
        }
    };
    let mut out = String::new();
    if let Some(mut so) = child.stdout.take() {
        let _ = so.read_to_string(&mut out);
    }
    let _ = std::fs::remove_dir_all(format!("/dev/shm/vfy-{}", child.id()));
    (status.and_then(|s| s.code()), out, timed_out)
}

fn hash_value(v: &Value) -> u64 {
    let mut h = DefaultHasher::new();
    v.to_string().hash(&mut h);
    h.finish()
}

pub fn check(prop_id: &str, quick: bool) -> i32 {
    let started = Instant::now();
    let Some(prop) = props::get(prop_id) else {
        eprintln!("unknown property {prop_id}");
        return 2;
    };
    let meta = prop.meta();
    let seed: u64 = std::env::var("VERIF_SEED").ok().and_then(|s| s.parse().ok()).unwrap_or(0);
    let tier = if quick { "quick" } else { "thorough" };
    let known = load_known();
    let work = PathBuf::from(format!("/dev/shm/vfy-orch-{}", std::process::id()));
    let _ = std::fs::remove_dir_all(&work);
    std::fs::create_dir_all(&work).expect("mkdir work");
    let mut total = Stats::default();
    let mut violations: Vec<(Violation, Option<PathBuf>)> = vec![];
    let mut infra: Vec<String> = vec![];

    // 1. regress replays (committed shrunk reproductions and fixtures), each in a fresh child
    let regress_dir = Path::new(VERIF_DIR).join("regress").join(prop_id);
    let mut regress_n = 0u64;
    if let Ok(rd) = std::fs::read_dir(&regress_dir) {
        let mut files: Vec<PathBuf> = rd.flatten().map(|e| e.path()).filter(|p| p.extension().map(|e| e == "json").unwrap_or(false)).collect();
        files.sort();
        for f in files {
            regress_n += 1;
            let (code, out, timed_out) = replay_alone(prop_id, &f, Duration::from_secs(120));
            match code {
                Some(0) => {}
                Some(1) => {
                    let msg = out.lines().find(|l| l.starts_with("MESSAGE ")).map(|l| l[8..].to_string()).unwrap_or_default();
                    let sig = out.lines().find(|l| l.starts_with("SIGNATURE ")).map(|l| l[10..].to_string()).unwrap_or_default();
                    let case = std::fs::read(&f).ok().and_then(|b| serde_json::from_slice::<Value>(&b).ok()).unwrap_or(Value::Null);
                    violations.push((
                        Violation { message: format!("regress case {} fails: {msg}", f.display()), signature: sig, case: case.get("case").cloned().unwrap_or(case) },
                        Some(f.clone()),
                    ));
                }
                _ => {
                    if timed_out && meta.hang_is_violation {
                        violations.push((
                            Violation { message: format!("regress case {} does not return within 120 s", f.display()), signature: format!("{prop_id} hang"), case: Value::Null },
                            Some(f.clone()),
                        ));
                    } else {
                        infra.push(format!("regress replay {} ended abnormally (code {code:?}, timed out {timed_out})", f.display()));
                    }
                }
            }
        }
    }

    // 2. workers
    let n = nworkers();
    let exe = std::env::current_exe().expect("current_exe");
    let mut workers: Vec<Worker> = vec![];
    for shard in 0..n {
        let out = work.join(format!("w{shard}.json"));
        let mut journal = out.clone().into_os_string();
        journal.push(".journal");
        let child = Command::new(&exe)
            .args(["worker", prop_id, "--tier", tier])
            .args(["--shard", &format!("{shard}/{n}")])
            .args(["--seed", &seed.to_string()])
            .arg("--out")
            .arg(&out)
            .stdout(Stdio::null())
            .stderr(Stdio::inherit())
            .spawn()
            .expect("spawn worker");
        workers.push(Worker {
            shard,
            child,
            out,
            journal: PathBuf::from(journal),
            last_beat: Instant::now(),
            last_mtime: None,
        });
    }
    let stall_limit = Duration::from_secs(if quick { 60 } else { 150 });
    let mut pending: Vec<Worker> = workers;
    let mut lost: Vec<(usize, PathBuf, bool)> = vec![]; // shard, journal, stalled
    while !pending.is_empty() {
        let mut still = vec![];
        for mut w in pending {
            match w.child.try_wait() {
                Ok(Some(status)) => {
                    let _ = std::fs::remove_dir_all(format!("/dev/shm/vfy-{}", w.child.id()));
                    match std::fs::read(&w.out).ok().and_then(|b| serde_json::from_slice::<Stats>(&b).ok()) {
                        Some(s) if status.success() => total.merge(s),
                        _ => {
                            lost.push((w.shard, w.journal.clone(), false));
                        }
                    }
                }
                Ok(None) => {
                    let mt = std::fs::metadata(&w.journal).and_then(|m| m.modified()).ok();
                    if mt != w.last_mtime {
                        w.last_mtime = mt;
                        w.last_beat = Instant::now();
                    }
                    if w.last_beat.elapsed() > stall_limit {
                        let _ = w.child.kill();
                        let _ = w.child.wait();
                        let _ = std::fs::remove_dir_all(format!("/dev/shm/vfy-{}", w.child.id()));
                        lost.push((w.shard, w.journal.clone(), true));
                    } else {
                        still.push(w);
                    }
                }
                Err(e) => {
                    infra.push(format!("worker {}: {e}", w.shard));
                }
            }
        }
        pending = still;
        if !pending.is_empty() {
            std::thread::sleep(Duration::from_millis(50));
        }
    }
    // 3. lost workers: re-run the journalled case alone
    let mut confirmed_from_lost = false;
    for (shard, journal, stalled) in lost {
        if confirmed_from_lost {
            // one confirmed reproduction is enough; the other lost workers most likely met the same thing
            continue;
        }
        let case = std::fs::read(&journal).ok().and_then(|b| serde_json::from_slice::<Value>(&b).ok());
        let Some(case) = case.filter(|c| !c.is_null()) else {
            infra.push(format!("worker {shard} was lost ({}) without a journalled case", if stalled { "stalled" } else { "died" }));
            continue;
        };
        let f = work.join(format!("lost{shard}.json"));
        std::fs::write(&f, serde_json::to_vec(&json!({"property": prop_id, "case": case})).unwrap()).unwrap();
        let mut crashes = 0;
        let mut hangs = 0;
        let mut fails = 0;
        let mut last_out = String::new();
        for _ in 0..2 {
            let (code, out, timed_out) = replay_alone(prop_id, &f, Duration::from_secs(60));
            if code == Some(0) {
                break; // passes alone: no need for a second run
            }
            last_out = out;
            match code {
                Some(0) => {}
                Some(1) => fails += 1,
                _ if timed_out => hangs += 1,
                _ => crashes += 1,
            }
        }
        if fails == 2 || (hangs == 2 && meta.hang_is_violation) || (crashes == 2 && prop_id == "C18") {
            confirmed_from_lost = true;
        }
        if fails == 2 {
            let msg = last_out.lines().find(|l| l.starts_with("MESSAGE ")).map(|l| l[8..].to_string()).unwrap_or_default();
            let sig = last_out.lines().find(|l| l.starts_with("SIGNATURE ")).map(|l| l[10..].to_string()).unwrap_or_default();
            violations.push((Violation { message: msg, signature: sig, case }, None));
        } else if hangs == 2 && meta.hang_is_violation {
            violations.push((
                Violation { message: "the run does not return: re-run alone in a fresh process it exceeded 60 s twice".into(), signature: format!("{prop_id} hang"), case },
                None,
            ));
        } else if crashes == 2 && prop_id == "C18" {
            violations.push((
                Violation { message: "the process aborts (killed by a signal / abnormal exit) on this case, twice in a fresh process".into(), signature: "C18 abort".into(), case },
                None,
            ));
        } else {
            infra.push(format!(
                "worker {shard} was lost ({}); its journalled case re-run alone: {fails} fail, {hangs} hang, {crashes} crash of 2",
                if stalled { "stalled" } else { "died" }
            ));
        }
    }
    for v in std::mem::take(&mut total.violations) {
        violations.push((v, None));
    }
    infra.extend(std::mem::take(&mut total.infra));

    // 4. known findings and replay files
    let mut real: Vec<(Violation, PathBuf)> = vec![];
    let mut known_hits: Vec<String> = vec![];
    let replays = Path::new(&out_dir()).join("replays");
    let _ = std::fs::create_dir_all(&replays);
    for (v, path) in violations {
        if let Some(k) = known.iter().find(|k| k.status == "open" && k.property == prop_id && k.signature == v.signature) {
            let line = format!("KNOWN-FINDING: property={prop_id} {}", k.what);
            if !known_hits.contains(&line) {
                known_hits.push(line);
            }
            continue;
        }
        let path = path.unwrap_or_else(|| {
            let p = replays.join(format!("{prop_id}-{:016x}.json", hash_value(&v.case)));
            let body = json!({"property": prop_id, "tier": tier, "seed": seed, "signature": v.signature, "message": v.message, "case": v.case});
            let _ = std::fs::write(&p, serde_json::to_vec_pretty(&body).unwrap());
            p
        });
        real.push((v, path));
    }
    // open known findings that were excluded by construction still get their line
    for k in known.iter().filter(|k| k.status == "open" && k.property == prop_id) {
        let line = format!("KNOWN-FINDING: property={prop_id} {}", k.what);
        if !known_hits.contains(&line) {
            known_hits.push(line);
        }
    }

    // 5. evidence
    let wall = started.elapsed().as_secs_f64();
    let distinct = total.nontrivial.len() as u64 + total.nontrivial_counted;
    if total.samples.is_empty() {
        // a run that stopped at its first case: show the failing cases instead
        for (v, _) in real.iter().take(3) {
            total.samples.push(json!({"violating_case": v.case, "message": v.message}));
        }
    }
    write_evidence(&meta, tier, seed, &total, distinct, regress_n, real.len(), &infra, wall);

    let _ = std::fs::remove_dir_all(&work);
    for l in &known_hits {
        println!("{l}");
    }
    println!(
        "{prop_id} {tier} seed={seed}: {} evaluations, {} distinct non-trivial, {} regress, {} excluded, {:.1}s",
        total.evaluations,
        distinct,
        regress_n,
        total.excluded.values().sum::<u64>(),
        wall
    );
    if !real.is_empty() {
        // one line per distinct signature (workers often find the same thing), at most 5
        let mut seen: Vec<String> = vec![];
        for (v, p) in &real {
            if seen.contains(&v.signature) || seen.len() >= 5 {
                continue;
            }
            seen.push(v.signature.clone());
            println!("VIOLATION property={prop_id} replay={}", p.display());
            println!("  [{}] {}", v.signature, crate::props::common::strip_ansi(&v.message).lines().take(14).collect::<Vec<_>>().join("\n  "));
        }
        return 1;
    }
    if !infra.is_empty() {
        for i in &infra {
            eprintln!("INFRASTRUCTURE: {i}");
        }
        return 2;
    }
    0
}

#[allow(clippy::too_many_arguments)]
fn write_evidence(meta: &PropMeta, tier: &str, seed: u64, st: &Stats, distinct: u64, regress_n: u64, nviol: usize, infra: &[String], wall: f64) {
    let exhaustive = !st.exhaustive.is_empty();
    let mut coverage = json!({
        "evaluations": st.evaluations + regress_n,
        "distinct_nontrivial": distinct,
        "rule": meta.rule,
        "samples": st.samples,
        "classes": st.classes,
        "excluded_by_domain": st.excluded,
        "counters": st.counters,
        "regress_cases": regress_n,
        "notes": st.notes,
        "infrastructure_problems": infra,
    });
    if exhaustive {
        coverage["exhaustive"] = json!(true);
        coverage["exhaustive_scopes"] = json!(st.exhaustive);
    }
    let ev = json!({
        "property_id": meta.id,
        "tier": tier,
        "seed": seed,
        "level": meta.level,
        "coverage": coverage,
        "assumptions": meta.assumptions,
        "wall_s": (wall * 100.0).round() / 100.0,
        "violations": nviol,
    });
    let dir = Path::new(&out_dir()).join("evidence");
    let _ = std::fs::create_dir_all(&dir);
    let p = dir.join(format!("{}.json", meta.id));
    std::fs::write(&p, serde_json::to_vec_pretty(&ev).unwrap()).expect("write evidence");
}
