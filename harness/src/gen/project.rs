//! Project generator (DESIGN §4.1): multi-file projects inside the documented domain (§4.3),
//! built by construction from a choice stream.

use super::Choices;
use serde::{Deserialize, Serialize};
use std::collections::{BTreeMap, BTreeSet};

pub const ROOT: &str = "@ROOT@";
pub const MARK: &str = "@MARK@";

#[derive(Debug, Clone, PartialEq, Eq, Serialize, Deserialize)]
#[serde(untagged)]
pub enum FileData {
    Text(String),
    Bytes(Vec<u8>),
}

impl FileData {
    pub fn from_bytes(b: Vec<u8>) -> Self {
        match String::from_utf8(b) {
            Ok(s) => FileData::Text(s),
            Err(e) => FileData::Bytes(e.into_bytes()),
        }
    }
    pub fn bytes(&self) -> &[u8] {
        match self {
            FileData::Text(s) => s.as_bytes(),
            FileData::Bytes(b) => b,
        }
    }
}

/// A project as generated: relative path -> content, with `@ROOT@` / `@MARK@` placeholders for
/// the absolute project root and the marker directory.
#[derive(Debug, Clone, PartialEq, Eq, Serialize, Deserialize, Default)]
pub struct Project {
    pub files: BTreeMap<String, FileData>,
    #[serde(default)]
    pub dirs: BTreeSet<String>,
}

impl Project {
    pub fn put(&mut self, path: &str, text: impl Into<String>) {
        self.files.insert(path.to_string(), FileData::Text(text.into()));
    }
    /// substitute placeholders
    pub fn materialise(&self, root_abs: &str, marker_dir: &str) -> BTreeMap<String, Vec<u8>> {
        self.files
            .iter()
            .map(|(k, v)| {
                let b = match v {
                    FileData::Text(s) => s.replace(ROOT, root_abs).replace(MARK, marker_dir).into_bytes(),
                    FileData::Bytes(b) => b.clone(),
                };
                (k.clone(), b)
            })
            .collect()
    }
    pub fn sources(&self) -> Vec<String> {
        self.files
            .keys()
            .filter(|k| crate::model::names::source_shaped(k))
            .cloned()
            .collect()
    }
}

#[derive(Debug, Clone)]
pub struct GenParams {
    pub max_sources: usize,
    pub max_items: usize,
    /// per-opportunity probability (in 1/1000) of deliberately generating an error
    pub error_rate: usize,
    pub allow_run: bool,
    pub markers: bool,
    pub allow_deps: bool,
    pub allow_tags: bool,
    pub allow_temp: bool,
    pub crlf: bool,
    pub decoys: bool,
    pub abs_paths: bool,
    /// allow non-ASCII prefixes and text
    pub unicode: bool,
    /// favour tag directives and text lines
    pub tag_boost: bool,
    /// never write one temp target twice (C09's no-rewrite rule needs that)
    pub no_temp_rewrite: bool,
    /// occasionally make the first line of a source longer than 8 KiB
    pub long_lines: bool,
}

impl Default for GenParams {
    fn default() -> Self {
        Self {
            max_sources: 5,
            max_items: 9,
            error_rate: 12,
            allow_run: true,
            markers: false,
            allow_deps: true,
            allow_tags: true,
            allow_temp: true,
            crlf: true,
            decoys: false,
            abs_paths: true,
            unicode: true,
            tag_boost: false,
            no_temp_rewrite: false,
            long_lines: true,
        }
    }
}

const DIRS: &[&str] = &["sub", "other", "sub/deep", "sub/deep/er"];
const STEMS: &[&str] = &["a", "b", "foo", "bar", "x1", "data", "gen", "main"];
const EXTS: &[&str] = &["txt", "md", "c", "", "out.txt", "h"];
const INDENTS: &[&str] = &["", "  ", "\t", "    ", " \t"];
const PREFIXES: &[&str] = &["-", "//", "// ", "# ", "/* ", "<!-- ", "--", ";", "é", "語 "];
const WORDS: &[&str] = &["hello", "world", "x", "foo", "1", "a.b", "k=v", "Z9"];
const TEXT_PIECES: &[&str] = &[
    "hello", "world", "x", " ", "line", "  ", "\t", "#", "//", "-", "foo bar", "end", "*/", "-->", "é", "語",
    "TXTPP#", "TXTPP#runx", "TXTPP", "-TXTPP#hello", "TXTPP#run", "TXTPP#include", "TXTPP# ", "TXTPP#tag", "TXTPP#write",
    "a.txt", "txtpp#run", "ABC", "TAGT1", "BCAB",
];
const N_PLAIN_PIECES: usize = 16;
const TAG_NAMES: &[&str] = &["TAG", "T1", "X_X", "<v>", "NAME", "T2", "TAGGED", "T", "AB", "BC", "GT"];
const DIRECTIVE_NAMES: &[&str] = &["", "include", "after", "run", "temp", "tag", "write"];

#[derive(Debug, Clone)]
struct SrcPlan {
    dir: String,
    path: String,
    out: String,
    temps: Vec<String>,
    /// sources (indices) this one has a dependency directive on, transitively visible
    visible: BTreeSet<usize>,
}

pub fn rel_path(from_dir: &str, to: &str) -> String {
    let f: Vec<&str> = from_dir.split('/').filter(|s| !s.is_empty()).collect();
    let t: Vec<&str> = to.split('/').filter(|s| !s.is_empty()).collect();
    let mut i = 0;
    while i < f.len() && i + 1 < t.len() && f[i] == t[i] {
        i += 1;
    }
    let mut parts: Vec<String> = vec![];
    for _ in i..f.len() {
        parts.push("..".into());
    }
    for x in &t[i..] {
        parts.push((*x).into());
    }
    parts.join("/")
}

struct Gen<'c, 'd> {
    c: &'c mut Choices<'d>,
    p: GenParams,
    proj: Project,
    used: BTreeSet<String>,
    dirs: Vec<String>,
    plain: Vec<String>,
    bad_plain: Vec<String>,
    marker_n: usize,
}

fn join(dir: &str, name: &str) -> String {
    if dir.is_empty() {
        name.to_string()
    } else {
        format!("{dir}/{name}")
    }
}

/// generator-side check: would `line` be taken as a continuation of a directive (indent, prefix)?
fn would_continue(indent: &str, prefix: &str, line: &str) -> bool {
    let Some(r) = line.strip_prefix(indent) else { return false };
    if r == prefix.trim_end() || r.starts_with(prefix) {
        return true;
    }
    let lead = r.chars().take_while(|c| *c == ' ').count();
    lead >= prefix.len() || lead >= prefix.chars().count()
}

/// generator-side check: does a text line accidentally look like a directive?
fn looks_like_directive(line: &str) -> bool {
    let t = line.trim_start();
    match t.find("TXTPP#") {
        None => false,
        Some(i) => {
            let after = &t[i + 6..];
            let name = after.split(' ').next().unwrap_or("");
            DIRECTIVE_NAMES.contains(&name)
        }
    }
}

impl<'c, 'd> Gen<'c, 'd> {
    fn err(&mut self) -> bool {
        let r = self.p.error_rate;
        self.c.chance(r, 1000)
    }

    /// allocate a fresh (dir, stem, ext) so that no two generated or plain files share an
    /// output-level name
    fn alloc(&mut self, dir: &str, stem: &str, ext: &str) -> (String, String) {
        let mut n = 0;
        loop {
            let s = if n == 0 { stem.to_string() } else { format!("{stem}{n}") };
            let name = if ext.is_empty() { s.clone() } else { format!("{s}.{ext}") };
            let key = join(dir, &name);
            if !self.used.contains(&key) {
                self.used.insert(key);
                return (s, name);
            }
            n += 1;
        }
    }

    fn le(&mut self, base_crlf: bool) -> &'static str {
        if !self.p.crlf {
            return "\n";
        }
        let flip = self.c.chance(1, 8);
        if base_crlf != flip {
            "\r\n"
        } else {
            "\n"
        }
    }

    fn text_line(&mut self, tag: Option<&str>) -> String {
        self.text_line_ex(tag, false)
    }

    /// `inert`: the line will be an argument of a write/empty/temp directive, where directive
    /// look-alikes (also ones naming real files) are harmless by the documented semantics
    fn text_line_ex(&mut self, tag: Option<&str>, inert: bool) -> String {
        if inert && self.c.chance(1, 6) {
            let target = if !self.plain.is_empty() && self.c.chance(2, 3) {
                self.plain[self.c.below(self.plain.len())].clone()
            } else {
                "x.tmp".to_string()
            };
            let name = *self.c.pick(&["temp", "include", "run cat", "after", "tag", "write"]);
            let pre = *self.c.pick(&["", "-", "// "]);
            return format!("{pre}TXTPP#{name} {target}");
        }
        let n = 1 + self.c.below(3);
        let mut s = String::new();
        let tag_pos = self.c.below(n + 1);
        for i in 0..n {
            if i == tag_pos {
                if let Some(t) = tag {
                    s.push_str(t);
                }
            }
            let lookalike = self.c.chance(1, 4);
            let piece = if lookalike {
                TEXT_PIECES[N_PLAIN_PIECES + self.c.below(TEXT_PIECES.len() - N_PLAIN_PIECES)]
            } else {
                TEXT_PIECES[self.c.below(N_PLAIN_PIECES)]
            };
            if !self.p.unicode && !piece.is_ascii() {
                s.push('u');
            } else {
                s.push_str(piece);
            }
        }
        if tag_pos >= n {
            if let Some(t) = tag {
                s.push_str(t);
            }
        }
        if !inert && looks_like_directive(&s) && !self.c.chance(1, 8) {
            s = s.replacen("TXTPP#", "TXTPP#_", 1);
            if looks_like_directive(&s) {
                s = s.replace("TXTPP#", "TXTPP=");
            }
        }
        // trailing '\r' would make a lone CR once terminated by CRLF... pieces have none
        s
    }

    fn plain_file(&mut self) {
        let dir = self.dirs[self.c.below(self.dirs.len())].clone();
        let stem = *self.c.pick(STEMS);
        let ext = *self.c.pick(EXTS);
        let (_, name) = self.alloc(&dir, stem, ext);
        let path = join(&dir, &name);
        if self.err() {
            // not UTF-8
            self.proj.files.insert(path.clone(), FileData::Bytes(vec![b'o', b'k', 0xff, 0xfe, b'\n']));
            self.bad_plain.push(path);
            return;
        }
        let crlf = self.p.crlf && self.c.chance(1, 4);
        let nl = self.c.below(4);
        let mut s = String::new();
        for i in 0..nl {
            let l = self.text_line(None);
            s.push_str(&l);
            let last = i + 1 == nl;
            if !last || !self.c.chance(1, 4) {
                s.push_str(self.le(crlf));
            }
        }
        self.proj.put(&path, s);
        self.plain.push(path);
    }

    fn path_arg(&mut self, from_dir: &str, to: &str) -> String {
        let style = if self.p.abs_paths { self.c.weighted(&[10, 3, 2]) } else { self.c.weighted(&[10, 3]) };
        match style {
            0 => rel_path(from_dir, to),
            1 => format!("./{}", rel_path(from_dir, to)),
            _ => format!("{ROOT}/{to}"),
        }
    }

    fn command(&mut self, plans: &[SrcPlan], me: usize, my_temps: &[String], dir: &str, seen_dep: bool) -> Vec<String> {
        // returns atoms
        let n = 1 + self.c.below(3);
        let mut atoms = vec![];
        for i in 0..n {
            let last = i + 1 == n;
            let k = self.c.weighted(&[6, 5, 4, 1, 1, 1]);
            match k {
                0 => {
                    let nw = 1 + self.c.below(3);
                    let ws: Vec<&str> = (0..nw).map(|_| *self.c.pick(WORDS)).collect();
                    atoms.push(format!("echo {}", ws.join(" ")));
                }
                1 => {
                    let np = self.c.below(4);
                    let mut f = String::new();
                    for _ in 0..np {
                        let piece = *self.c.pick(&["a", "b c", "\\n", "\\r\\n", "\\t", "x", "\\n\\n", "é", "TAG", "  "]);
                        if !self.p.unicode && !piece.is_ascii() {
                            f.push('u');
                        } else {
                            f.push_str(piece);
                        }
                    }
                    atoms.push(format!("printf '{f}'"));
                }
                2 => {
                    // cat something readable
                    let mut cands: Vec<String> = self.plain.clone();
                    cands.extend(my_temps.iter().cloned());
                    cands.push(plans[me].path.clone());
                    if seen_dep {
                        for j in &plans[me].visible {
                            cands.push(plans[*j].out.clone());
                            cands.extend(plans[*j].temps.iter().cloned());
                        }
                    }
                    let missing = self.err();
                    let t = if missing {
                        join(dir, "nope.txt")
                    } else {
                        cands[self.c.below(cands.len())].clone()
                    };
                    let arg = self.path_arg(dir, &t);
                    if missing && !last {
                        // a failing cat in the middle does not fail the command; keep it
                    }
                    atoms.push(format!("cat {arg}"));
                }
                3 => atoms.push("pwd".into()),
                4 => atoms.push("true".into()),
                _ => {
                    if self.err() {
                        atoms.push(if self.c.chance(1, 2) { "exit 3".into() } else { "false".into() });
                    } else {
                        atoms.push("true".into());
                    }
                }
            }
        }
        if self.p.markers && self.c.chance(2, 3) {
            let id = format!("m{}", self.marker_n);
            self.marker_n += 1;
            let at = self.c.below(atoms.len() + 1);
            atoms.insert(at, format!("echo {id} >> {MARK}/log"));
        }
        atoms
    }
}

struct LineOut {
    text: String,
}

/// Generate a project.
pub fn gen_project(c: &mut Choices, params: &GenParams) -> Project {
    let mut g = Gen {
        c,
        p: params.clone(),
        proj: Project::default(),
        used: BTreeSet::new(),
        dirs: vec![String::new()],
        plain: vec![],
        bad_plain: vec![],
        marker_n: 0,
    };
    for d in DIRS {
        if g.c.chance(1, 3) {
            let mut cur = String::new();
            for comp in d.split('/') {
                cur = join(&cur, comp);
                if !g.dirs.contains(&cur) {
                    g.dirs.push(cur.clone());
                    g.proj.dirs.insert(cur.clone());
                    g.used.insert(cur.clone());
                }
            }
        }
    }
    let n_plain = g.c.below(4);
    for _ in 0..n_plain {
        g.plain_file();
    }
    let n_src = 1 + g.c.below(params.max_sources);
    // names first
    let mut plans: Vec<SrcPlan> = vec![];
    for _ in 0..n_src {
        let dir = g.dirs[g.c.below(g.dirs.len())].clone();
        let stem = *g.c.pick(STEMS);
        let mut ext = *g.c.pick(EXTS);
        let shape = g.c.below(3);
        if shape == 1 && ext.contains('.') {
            ext = "txt";
        }
        let (s, name) = g.alloc(&dir, stem, ext);
        let srcname = match (shape, ext.is_empty()) {
            (_, true) => format!("{s}.txtpp"),
            (1, false) => format!("{s}.txtpp.{ext}"),
            _ => format!("{name}.txtpp"),
        };
        plans.push(SrcPlan {
            dir: dir.clone(),
            path: join(&dir, &srcname),
            out: join(&dir, &name),
            temps: vec![],
            visible: BTreeSet::new(),
        });
    }
    if params.decoys {
        for d in g.dirs.clone() {
            for name in ["a.txt.bak", "a.tx", "txtpp", ".txtpp", "a.txtpp.b.c", "atxtpp", "notes"] {
                if g.c.chance(1, 4) {
                    let key = join(&d, name);
                    if !g.used.contains(&key) {
                        g.used.insert(key.clone());
                        g.proj.put(&key, format!("decoy {name}\n"));
                    }
                }
            }
        }
    }
    if params.decoys {
        // siblings whose names are derived from an output name: what a staging / backup /
        // swap file of a careless writer would be called
        for pl in plans.clone() {
            let out_name = crate::model::names::file_name(&pl.out).to_string();
            let stem = match out_name.rfind('.') {
                Some(i) if i > 0 => out_name[..i].to_string(),
                _ => out_name.clone(),
            };
            let cands = [
                format!("{stem}.tmp"),
                format!("{out_name}.tmp"),
                format!("{out_name}~"),
                format!("{stem}.bak"),
                format!(".{out_name}.swp"),
                format!("{out_name}.new"),
                format!("{out_name}.orig"),
            ];
            for (k, cand) in cands.iter().enumerate() {
                if g.c.chance(1, if k == 0 { 3 } else { 8 }) {
                    let key = join(&pl.dir, cand);
                    if !g.used.contains(&key) && !crate::model::names::source_shaped(&key) {
                        g.used.insert(key.clone());
                        g.proj.put(&key, format!("precious sibling {cand}\n"));
                    }
                }
            }
        }
    }
    for me in 0..n_src {
        let text = gen_source(&mut g, &mut plans, me);
        let path = plans[me].path.clone();
        g.proj.put(&path, text);
    }
    g.proj
}

fn gen_source(g: &mut Gen, plans: &mut Vec<SrcPlan>, me: usize) -> String {
    let dir = plans[me].dir.clone();
    let crlf = g.p.crlf && g.c.chance(1, 4);
    let mut lines: Vec<LineOut> = vec![];
    // open multi-line-capable directive (indent, prefix, is_run)
    let mut open: Option<(String, String, bool)> = None;
    let mut listening: Option<String> = None;
    let mut stored: Vec<String> = vec![];
    let mut all_tags: Vec<String> = vec![];
    let mut my_temps: Vec<String> = vec![];
    let mut seen_dep = false;
    let n_items = g.c.below(g.p.max_items + 1);

    // emit one logical line, inserting a separator when it would be swallowed by the open directive
    fn emit(g: &mut Gen, lines: &mut Vec<LineOut>, open: &mut Option<(String, String, bool)>, text: String, continuation: bool) {
        if !continuation {
            if let Some((ind, pre, is_run)) = open.clone() {
                if would_continue(&ind, &pre, &text) && (is_run || g.c.chance(3, 4)) {
                    lines.push(LineOut { text: String::new() });
                }
            }
            *open = None;
        }
        lines.push(LineOut { text });
    }

    let mut item = 0;
    let mut flushing = false;
    loop {
        if item >= n_items {
            // flush tags so that the file is well-formed (unless an error is wanted)
            flushing = true;
            if listening.is_none() && stored.is_empty() {
                break;
            }
            if g.err() {
                break; // unused tag error
            }
        }
        item += 1;
        let mut w: Vec<usize> = vec![
            30,                                        // 0 text
            if g.p.allow_deps { 14 } else { 8 },       // 1 include
            if g.p.allow_run { 14 } else { 0 },        // 2 run
            9,                                         // 3 write
            if g.p.allow_temp { 7 } else { 0 },        // 4 temp
            if !g.p.allow_tags { 0 } else if g.p.tag_boost { 24 } else { 8 }, // 5 tag
            4,                                         // 6 empty
            if g.p.allow_deps { 4 } else { 0 },        // 7 after
            if g.p.allow_temp && g.p.allow_run && !g.p.no_temp_rewrite { 2 } else { 0 }, // 8 temp rewritten + read twice
        ];
        if flushing {
            w = if listening.is_some() { vec![0, 0, 0, 1, 0, 0, 0, 0, 0] } else { vec![1, 0, 0, 0, 0, 0, 0, 0, 0] };
        }
        let kind = g.c.weighted(&w);
        if kind == 0 {
            let use_tag = if !stored.is_empty() && (flushing || g.c.chance(1, 2)) {
                let i = g.c.below(stored.len());
                Some(stored.remove(i))
            } else {
                None
            };
            // sometimes make a second stored tag overlap the one being used ("AB" + "BC" in
            // "ABC"): the leftmost is substituted, the overlapped one stays stored
            let mut overlapped: Option<String> = None;
            let mut insert = use_tag.clone();
            if let Some(u) = &use_tag {
                if let Some(o) = stored.iter().find(|o| o.len() > 1 && o.chars().next() == u.chars().last()).cloned() {
                    if g.c.chance(1, 2) {
                        insert = Some(format!("{u}{}", &o[o.chars().next().unwrap().len_utf8()..]));
                        overlapped = Some(o);
                    }
                }
            }
            let mut t = g.text_line(insert.as_deref());
            if g.c.chance(1, 6) {
                let ind = *g.c.pick(INDENTS);
                t = format!("{ind}{t}");
            }
            // a text line may accidentally contain other stored tags: they are then consumed too
            stored.retain(|s| !t.contains(s.as_str()) || Some(s) == overlapped.as_ref());
            emit(g, &mut lines, &mut open, t, false);
            continue;
        }
        if kind == 8 {
            // the same temp target written twice by this source, read by the same command after
            // each write: the two reads must differ (README: CONTENT is saved to FILE_PATH)
            let tdir = dir.clone();
            let (_, tname) = g.alloc(&tdir, "rw", "tmp");
            let target = join(&tdir, &tname);
            let arg = rel_path(&dir, &target);
            let w1 = *g.c.pick(WORDS);
            let w2 = *g.c.pick(&["second", "2", "changed"]);
            if let Some(t) = listening.take() {
                stored.push(t);
            }
            let tagged = listening.is_some();
            let _ = tagged;
            for (i, w) in [w1, w2].iter().enumerate() {
                emit(g, &mut lines, &mut open, format!("# TXTPP#temp {arg}"), false);
                open = Some((String::new(), "# ".into(), false));
                emit(g, &mut lines, &mut open, format!("# {w}"), true);
                emit(g, &mut lines, &mut open, format!("--TXTPP#run cat {arg}"), false);
                open = Some((String::new(), "--".into(), true));
                if i == 0 && g.c.chance(1, 2) {
                    let t = g.text_line(None);
                    emit(g, &mut lines, &mut open, t, false);
                }
            }
            my_temps.push(target.clone());
            plans[me].temps.push(target);
            continue;
        }
        let indent = g.c.pick(INDENTS).to_string();
        let multi = matches!(kind, 2 | 3 | 4 | 6);
        let mut prefix = if multi || g.c.chance(1, 2) {
            let np = if g.p.unicode { PREFIXES.len() } else { PREFIXES.len() - 2 };
            PREFIXES[g.c.below(np)].to_string()
        } else {
            String::new()
        };
        if multi && g.err() {
            prefix = String::new(); // prefix-less multi-line directive: error
        }
        let mut args: Vec<String> = vec![];
        let name;
        let mut output_dir = false;
        match kind {
            1 | 7 => {
                name = if kind == 1 { "include" } else { "after" };
                output_dir = kind == 1;
                // target
                let mut opts: Vec<(usize, u8)> = vec![];
                if !g.plain.is_empty() {
                    opts.push((8, 0));
                }
                if me > 0 && g.p.allow_deps {
                    opts.push((10, 1));
                }
                if kind == 1 {
                    opts.push((2, 2)); // raw source file
                    if !my_temps.is_empty() {
                        opts.push((4, 3));
                    }
                    if seen_dep && plans[me].visible.iter().any(|j| !plans[*j].temps.is_empty()) {
                        opts.push((3, 4));
                    }
                }
                if opts.is_empty() {
                    opts.push((1, 2));
                }
                let ws: Vec<usize> = opts.iter().map(|o| o.0).collect();
                let mut pickk = opts[g.c.weighted(&ws)].1;
                if kind == 1 && g.err() {
                    pickk = 5 + g.c.below(3) as u8; // missing / directory / not utf-8
                }
                let target = match pickk {
                    0 => g.plain[g.c.below(g.plain.len())].clone(),
                    1 => {
                        let j = g.c.below(me);
                        seen_dep = true;
                        let mut vis = plans[j].visible.clone();
                        vis.insert(j);
                        plans[me].visible.extend(vis);
                        plans[j].out.clone()
                    }
                    2 => {
                        let j = g.c.below(plans.len());
                        // own source or an earlier one (later ones have no content yet but exist)
                        plans[j].path.clone()
                    }
                    3 => my_temps[g.c.below(my_temps.len())].clone(),
                    4 => {
                        let cands: Vec<String> = plans[me]
                            .visible
                            .iter()
                            .flat_map(|j| plans[*j].temps.iter().cloned())
                            .collect();
                        cands[g.c.below(cands.len())].clone()
                    }
                    5 => join(&dir, "missing.txt"),
                    6 => {
                        if g.dirs.len() > 1 {
                            g.dirs[1 + g.c.below(g.dirs.len() - 1)].clone()
                        } else {
                            join(&dir, "missing.txt")
                        }
                    }
                    _ => {
                        if g.bad_plain.is_empty() {
                            join(&dir, "missing.txt")
                        } else {
                            g.bad_plain[g.c.below(g.bad_plain.len())].clone()
                        }
                    }
                };
                args.push(g.path_arg(&dir, &target));
            }
            2 => {
                name = "run";
                output_dir = true;
                let atoms = g.command(plans, me, &my_temps, &dir, seen_dep);
                // split over lines at atom boundaries
                let mut cur = String::new();
                for (i, a) in atoms.iter().enumerate() {
                    let sep = if i + 1 < atoms.len() { ";" } else { "" };
                    if !cur.is_empty() {
                        cur.push(' ');
                    }
                    cur.push_str(a);
                    cur.push_str(sep);
                    if i + 1 < atoms.len() && g.c.chance(1, 3) {
                        args.push(std::mem::take(&mut cur));
                    }
                }
                args.push(cur);
            }
            3 => {
                name = "write";
                output_dir = true;
                let n = g.c.below(4);
                for _ in 0..n {
                    let tagname = if !all_tags.is_empty() && g.c.chance(1, 4) {
                        Some(all_tags[g.c.below(all_tags.len())].clone())
                    } else {
                        None
                    };
                    let mut t = g.text_line_ex(tagname.as_deref(), true);
                    t = t.trim_end().to_string();
                    args.push(t);
                }
                if args.is_empty() || g.c.chance(1, 3) {
                    args.push(String::new());
                }
                if let Some(first) = args.first_mut() {
                    *first = first.trim().to_string();
                }
            }
            4 => {
                name = "temp";
                let e = g.err();
                let tdir = g.dirs[g.c.below(g.dirs.len())].clone();
                let ext = *g.c.pick(&["tmp", "g.py", "gen"]);
                let (_, tname) = g.alloc(&tdir, "t", ext);
                let mut target = join(&tdir, &tname);
                let mut arg = g.path_arg(&dir, &target);
                if e {
                    match g.c.below(3) {
                        0 => {
                            // x.tmp.txtpp, or x.txtpp.tmp (the other source-name shape)
                            arg = match arg.rfind('.') {
                                Some(i) if g.c.chance(1, 2) && !arg[i..].contains('/') => format!("{}.txtpp{}", &arg[..i], &arg[i..]),
                                _ => format!("{arg}.txtpp"),
                            };
                            target.clear();
                        }
                        1 => {
                            arg = "nodir/x.tmp".to_string();
                            target.clear();
                        }
                        _ => {
                            arg = String::new();
                            target.clear();
                        }
                    }
                }
                if prefix.is_empty() && !g.plain.is_empty() && g.c.chance(1, 2) {
                    // an erroneous (prefix-less) temp directive naming a file that exists: a
                    // build must reject it, clean must ignore it - and leave that file alone
                    let victim = g.plain[g.c.below(g.plain.len())].clone();
                    arg = rel_path(&dir, &victim);
                    target.clear();
                }
                args.push(arg);
                let n = g.c.below(4);
                for _ in 0..n {
                    let t = g.text_line_ex(None, true).trim_end().to_string();
                    args.push(t);
                }
                if n > 0 && g.c.chance(1, 2) {
                    args.push(String::new());
                }
                if !target.is_empty() {
                    my_temps.push(target.clone());
                    plans[me].temps.push(target);
                }
            }
            5 => {
                name = "tag";
                // choose a name; avoid conflicts unless an error is wanted
                let want_err = g.err();
                let mut nm = TAG_NAMES[g.c.below(TAG_NAMES.len())].to_string();
                let conflicts = |n: &str, stored: &Vec<String>| stored.iter().any(|s| s.starts_with(n) || n.starts_with(s.as_str()));
                if !want_err {
                    if listening.is_some() {
                        // cannot create now: emit a text line instead
                        let t = g.text_line(None);
                        emit(g, &mut lines, &mut open, t, false);
                        continue;
                    }
                    let mut k = 0;
                    while conflicts(&nm, &stored) {
                        nm = format!("{}{}", TAG_NAMES[(k + 1) % TAG_NAMES.len()], all_tags.len() + k);
                        k += 1;
                    }
                    listening = Some(nm.clone());
                    all_tags.push(nm.clone());
                }
                args.push(nm);
            }
            _ => {
                name = "";
                let n = g.c.below(3);
                for _ in 0..n {
                    let t = g.text_line_ex(None, true).trim_end().to_string();
                    args.push(t);
                }
                if let Some(first) = args.first_mut() {
                    *first = first.trim().to_string();
                }
                if args.is_empty() {
                    args.push(String::new());
                }
            }
        }
        if output_dir {
            if let Some(t) = listening.take() {
                stored.push(t);
            }
        }
        // render
        let first = &args[0];
        let pad = if g.c.chance(1, 6) { "  " } else { "" };
        let trail = if g.c.chance(1, 8) { " \t" } else { "" };
        let l0 = if first.is_empty() && !g.c.chance(1, 3) {
            format!("{indent}{prefix}TXTPP#{name}")
        } else {
            format!("{indent}{prefix}TXTPP#{name} {pad}{first}{trail}")
        };
        emit(g, &mut lines, &mut open, l0, false);
        let can_multi = multi && !prefix.is_empty();
        if can_multi {
            open = Some((indent.clone(), prefix.clone(), kind == 2));
            for a in &args[1..] {
                let form = if a.is_empty() && g.c.chance(1, 2) {
                    2
                } else if prefix.is_ascii() && g.c.chance(1, 3) {
                    1
                } else {
                    0
                };
                let trail = if g.c.chance(1, 10) { "  " } else { "" };
                let l = match form {
                    0 => format!("{indent}{prefix}{a}{trail}"),
                    1 => format!("{indent}{}{a}{trail}", " ".repeat(prefix.len())),
                    _ => format!("{indent}{}", prefix.trim_end()),
                };
                emit(g, &mut lines, &mut open, l, true);
            }
        } else if multi {
            // prefix-less: the arguments cannot be continued; emit them as following lines anyway
            for a in &args[1..] {
                emit(g, &mut lines, &mut open, format!("{indent}{a}"), false);
            }
        }
    }
    if g.p.long_lines && g.c.chance(1, 25) {
        // a first line longer than any I/O buffer (8 KiB): the line ending is still that of
        // the first line
        let n = 8_100 + g.c.below(12_000);
        lines.insert(0, LineOut { text: "L".repeat(n) });
    }
    // terminators
    let n = lines.len();
    let final_nl = !g.c.chance(1, 6);
    let mut s = String::new();
    for (i, l) in lines.iter().enumerate() {
        s.push_str(&l.text);
        if i + 1 < n || final_nl {
            let le = if i == 0 {
                if crlf { "\r\n" } else { "\n" }
            } else {
                g.le(crlf)
            };
            s.push_str(le);
        }
    }
    s
}
