//! Generators. Every generator is an imperative function over a `Choices` stream. The stream
//! is a `Vec<u16>` produced (and shrunk) by proptest, so all randomness comes from the library;
//! an exhausted stream yields 0, and generators are written so that 0 is the simplest choice.

pub mod graph;
pub mod project;

pub struct Choices<'a> {
    data: &'a [u16],
    pos: usize,
}

impl<'a> Choices<'a> {
    pub fn new(data: &'a [u16]) -> Self {
        Self { data, pos: 0 }
    }
    pub fn raw(&mut self) -> u16 {
        let v = self.data.get(self.pos).copied().unwrap_or(0);
        self.pos += 1;
        v
    }
    /// uniform in 0..n, monotone in the raw value (so shrinking the raw value shrinks the result)
    pub fn below(&mut self, n: usize) -> usize {
        if n <= 1 {
            // still consume, so that the stream layout does not depend on n
            self.raw();
            return 0;
        }
        ((self.raw() as usize) * n) >> 16
    }
    /// true with probability num/den; false for small raw values (false is "simpler")
    pub fn chance(&mut self, num: usize, den: usize) -> bool {
        let r = self.below(den);
        r >= den - num.min(den)
    }
    pub fn pick<'b, T>(&mut self, items: &'b [T]) -> &'b T {
        &items[self.below(items.len())]
    }
    /// index chosen with the given weights; index 0 for raw value 0
    pub fn weighted(&mut self, weights: &[usize]) -> usize {
        let total: usize = weights.iter().sum();
        let mut r = self.below(total.max(1));
        for (i, w) in weights.iter().enumerate() {
            if r < *w {
                return i;
            }
            r -= *w;
        }
        weights.len() - 1
    }
    pub fn exhausted(&self) -> bool {
        self.pos >= self.data.len()
    }
    pub fn used(&self) -> usize {
        self.pos
    }
}
