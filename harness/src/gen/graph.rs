// graph generators (C02/C03/C05)
