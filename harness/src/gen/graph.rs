//! Dependency-graph projects (C02 / C03 / C05): files f0..fk, an edge i->j rendered as an
//! `include fj` or as `after fj` + `run cat fj`, with execution markers.

use super::project::{rel_path, Project, MARK};
use super::Choices;
use serde::{Deserialize, Serialize};

#[derive(Debug, Clone, Copy, PartialEq, Eq, Hash, Serialize, Deserialize)]
pub enum EdgeForm {
    Include,
    AfterCat,
}

#[derive(Debug, Clone, PartialEq, Eq, Hash, Serialize, Deserialize)]
pub struct GraphSpec {
    pub n: usize,
    /// (from, to, form) in the order they appear in file `from`
    pub edges: Vec<(usize, usize, EdgeForm)>,
    /// a marker command before the first dependency directive of file i
    pub pre_marker: Vec<bool>,
    /// directory of file i: 0 = root, 1 = "s", 2 = "s/t"
    pub dirs: Vec<u8>,
    /// rich: one marker command per edge, text between edges; lean (default): one command per
    /// file after its last dependency directive (fewer sub-processes per run)
    #[serde(default)]
    pub rich: bool,
    /// files without dependencies carry no command (saves a sub-process per leaf)
    #[serde(default)]
    pub no_solo: bool,
    /// lean rendering: files with >= 2 edges end with their last dependency directive (no
    /// command, no text after it)
    #[serde(default)]
    pub eof_dep: bool,
    /// file i's source is named f{i}.txtpp.txt instead of f{i}.txt.txtpp (same output name)
    #[serde(default)]
    pub alt_name: Vec<bool>,
    /// rich rendering: dependency directives carry the same `-` prefix as the run directives,
    /// and a text line follows every run line (a line starting with the prefix of an open run
    /// directive would continue it)
    #[serde(default)]
    pub dash_deps: bool,
    /// file i (only if it has no edges) is a completely empty source: its output is empty
    #[serde(default)]
    pub empty: Vec<bool>,
    /// file i ends with a verbatim include of its own source text (`include f.txt.txtpp` names
    /// a .txtpp file: included as it is, never a dependency)
    #[serde(default)]
    pub raw_self: Vec<bool>,
}

pub fn dir_name(d: u8) -> &'static str {
    match d {
        0 => "",
        1 => "s",
        _ => "s/t",
    }
}

impl GraphSpec {
    pub fn out_path(&self, i: usize) -> String {
        let d = dir_name(self.dirs.get(i).copied().unwrap_or(0));
        if d.is_empty() {
            format!("f{i}.txt")
        } else {
            format!("{d}/f{i}.txt")
        }
    }
    pub fn src_path(&self, i: usize) -> String {
        if self.alt_name.get(i).copied().unwrap_or(false) {
            let out = self.out_path(i);
            format!("{}.txtpp.txt", out.strip_suffix(".txt").unwrap_or(&out))
        } else {
            format!("{}.txtpp", self.out_path(i))
        }
    }
    pub fn out_edges(&self, i: usize) -> Vec<usize> {
        let mut v = vec![];
        for (a, b, _) in &self.edges {
            if *a == i && !v.contains(b) {
                v.push(*b);
            }
        }
        v
    }
    /// files reachable from `from` (including the start nodes)
    pub fn closure(&self, from: &[usize]) -> Vec<usize> {
        let mut seen = vec![false; self.n];
        let mut todo: Vec<usize> = from.to_vec();
        while let Some(x) = todo.pop() {
            if x < self.n && !seen[x] {
                seen[x] = true;
                todo.extend(self.out_edges(x));
            }
        }
        (0..self.n).filter(|i| seen[*i]).collect()
    }
    /// nodes that lie on a cycle (including self-loops)
    pub fn on_cycle(&self) -> Vec<bool> {
        (0..self.n)
            .map(|i| {
                // can i reach itself through at least one edge?
                let mut seen = vec![false; self.n];
                let mut todo = self.out_edges(i);
                while let Some(x) = todo.pop() {
                    if x == i {
                        return true;
                    }
                    if !seen[x] {
                        seen[x] = true;
                        todo.extend(self.out_edges(x));
                    }
                }
                false
            })
            .collect()
    }
    /// nodes that can reach a cycle
    pub fn reaches_cycle(&self) -> Vec<bool> {
        let cyc = self.on_cycle();
        (0..self.n).map(|i| self.closure(&[i]).iter().any(|j| cyc[*j])).collect()
    }
    pub fn is_acyclic(&self) -> bool {
        !self.on_cycle().iter().any(|b| *b)
    }

    pub fn render(&self) -> Project {
        let mut p = Project::default();
        p.dirs.insert("d".to_string()); // for aliases like d/../f0.txt
        for d in &self.dirs {
            let n = dir_name(*d);
            if !n.is_empty() {
                p.dirs.insert(n.to_string());
            }
        }
        for i in 0..self.n {
            let my_dir = dir_name(self.dirs.get(i).copied().unwrap_or(0));
            let mut s = String::new();
            if self.pre_marker.get(i).copied().unwrap_or(false) {
                s.push_str(&format!("-TXTPP#run echo pre{i} >> {MARK}/log\n"));
            }
            s.push_str(&format!("head{i}\n"));
            let mine: Vec<&(usize, usize, EdgeForm)> = self.edges.iter().filter(|e| e.0 == i).collect();
            if mine.is_empty() && self.empty.get(i).copied().unwrap_or(false) {
                p.put(&self.src_path(i), String::new());
                continue;
            }
            let raw_self = if self.raw_self.get(i).copied().unwrap_or(false) {
                let me = self.src_path(i);
                format!("TXTPP#include {}\n", me.rsplit('/').next().unwrap_or(&me))
            } else {
                String::new()
            };
            if !self.rich {
                let mut cats = String::new();
                let split_last = self.eof_dep && mine.len() >= 2;
                let upto = if split_last { mine.len() - 1 } else { mine.len() };
                for (_, j, form) in mine.iter().take(upto) {
                    let target = rel_path(my_dir, &self.out_path(*j));
                    match form {
                        EdgeForm::Include => s.push_str(&format!("TXTPP#include {target}\n")),
                        EdgeForm::AfterCat => {
                            s.push_str(&format!("TXTPP#after {target}\n"));
                            cats.push_str(&format!("cat {target}; "));
                        }
                    }
                }
                if split_last {
                    s.push_str(&format!("-TXTPP#run {cats}echo post{i}_0 >> {MARK}/log\n"));
                    let (_, j, form) = mine[mine.len() - 1];
                    let target = rel_path(my_dir, &self.out_path(*j));
                    s.push_str(&match form {
                        EdgeForm::Include => format!("TXTPP#include {target}"),
                        EdgeForm::AfterCat => format!("TXTPP#after {target}"),
                    });
                    if i % 2 == 0 {
                        s.push('\n');
                    }
                    p.put(&self.src_path(i), s);
                    continue;
                }
                if !mine.is_empty() {
                    s.push_str(&format!("-TXTPP#run {cats}echo post{i}_0 >> {MARK}/log\n"));
                } else if !self.no_solo {
                    s.push_str(&format!("-TXTPP#run echo solo{i} >> {MARK}/log\n"));
                }
                s.push_str(&format!("tail{i}\n"));
                s.push_str(&raw_self);
                p.put(&self.src_path(i), s);
                continue;
            }
            let dash = if self.dash_deps { "-" } else { "" };
            for (k, (_, j, form)) in mine.iter().enumerate() {
                let target = rel_path(my_dir, &self.out_path(*j));
                match form {
                    EdgeForm::Include => {
                        s.push_str(&format!("{dash}TXTPP#include {target}\n"));
                        s.push_str(&format!("-TXTPP#run echo post{i}_{k} >> {MARK}/log\n"));
                    }
                    EdgeForm::AfterCat => {
                        s.push_str(&format!("{dash}TXTPP#after {target}\n"));
                        s.push_str(&format!("-TXTPP#run cat {target}; echo post{i}_{k} >> {MARK}/log\n"));
                    }
                }
                if k % 2 == 1 || self.dash_deps {
                    s.push_str(&format!("mid{i}_{k}\n"));
                }
            }
            if mine.is_empty() {
                s.push_str(&format!("-TXTPP#run echo solo{i} >> {MARK}/log\n"));
            }
            s.push_str(&format!("tail{i}\n"));
            s.push_str(&raw_self);
            p.put(&self.src_path(i), s);
        }
        p
    }
}

/// every digraph on n nodes is a bitmask over n*n possible edges (row-major from*n+to)
pub fn graph_from_mask(n: usize, mask: u64, forms: u64, pre: u64, dirs: &[u8]) -> GraphSpec {
    let mut edges = vec![];
    let mut k = 0;
    for a in 0..n {
        for b in 0..n {
            if mask >> (a * n + b) & 1 == 1 {
                let form = if forms >> (k % 64) & 1 == 1 { EdgeForm::AfterCat } else { EdgeForm::Include };
                edges.push((a, b, form));
                k += 1;
            }
        }
    }
    GraphSpec {
        n,
        edges,
        pre_marker: (0..n).map(|i| pre >> i & 1 == 1).collect(),
        dirs: (0..n).map(|i| dirs.get(i).copied().unwrap_or(0)).collect(),
        rich: false,
        no_solo: false,
        eof_dep: false,
        alt_name: (0..n).map(|i| pre >> (10 + 2 * i) & 3 == 3).collect(),
        dash_deps: false,
        empty: (0..n).map(|i| pre >> (24 + 2 * i) & 3 == 3).collect(),
        raw_self: (0..n).map(|i| pre >> (34 + 2 * i) & 7 == 7).collect(),
    }
}

pub fn mask_is_acyclic(n: usize, mask: u64) -> bool {
    // Kahn
    let mut indeg = vec![0usize; n];
    for a in 0..n {
        for b in 0..n {
            if mask >> (a * n + b) & 1 == 1 {
                if a == b {
                    return false;
                }
                indeg[b] += 1;
            }
        }
    }
    let mut removed = vec![false; n];
    for _ in 0..n {
        let Some(x) = (0..n).find(|i| !removed[*i] && indeg[*i] == 0) else { return false };
        removed[x] = true;
        for b in 0..n {
            if mask >> (x * n + b) & 1 == 1 {
                indeg[b] -= 1;
            }
        }
    }
    true
}

/// random graph from choices; `acyclic` forces edges to go from higher to lower index after a
/// random relabelling
pub fn gen_graph(c: &mut Choices, min_n: usize, max_n: usize, acyclic: bool, subdirs: bool) -> GraphSpec {
    let n = min_n + c.below(max_n - min_n + 1);
    let density = 1 + c.below(4); // edges with probability density/6
    // relabelling
    let mut perm: Vec<usize> = (0..n).collect();
    for i in (1..n).rev() {
        let j = c.below(i + 1);
        perm.swap(i, j);
    }
    let mut edges = vec![];
    for a in 0..n {
        for b in 0..n {
            let allowed = if acyclic { a > b } else { true };
            if allowed && c.chance(density, if a == b { 12 } else { 6 }) {
                let form = if c.chance(1, 2) { EdgeForm::AfterCat } else { EdgeForm::Include };
                edges.push((perm[a], perm[b], form));
            }
        }
    }
    edges.sort_by_key(|e| e.0);
    let pre_marker = (0..n).map(|_| c.chance(1, 3)).collect();
    let dirs = (0..n).map(|_| if subdirs { c.weighted(&[3, 1, 1]) as u8 } else { 0 }).collect();
    let rich = c.chance(1, 2);
    let eof_dep = c.chance(1, 3);
    let alt_name = (0..n).map(|_| c.chance(1, 3)).collect();
    let dash_deps = c.chance(1, 2);
    let empty = (0..n).map(|_| c.chance(1, 5)).collect();
    let raw_self = (0..n).map(|_| c.chance(1, 6)).collect();
    GraphSpec { n, edges, pre_marker, dirs, rich, no_solo: false, eof_dep, alt_name, dash_deps, empty, raw_self }
}
