//! Scratch trees, snapshots, sentinel mtimes.

use std::collections::BTreeMap;
use std::fs;
use std::os::unix::fs::MetadataExt;
use std::path::{Path, PathBuf};

pub fn scratch_base() -> PathBuf {
    let base = if Path::new("/dev/shm").is_dir() {
        PathBuf::from("/dev/shm")
    } else {
        std::env::temp_dir()
    };
    base.join(format!("vfy-{}", std::process::id()))
}

/// One scratch area per case: `<base>/<n>/root` (the project) and `<base>/<n>/mark` (markers).
pub struct Scratch {
    pub dir: PathBuf,
    pub root: PathBuf,
    pub mark: PathBuf,
}

static COUNTER: std::sync::atomic::AtomicU64 = std::sync::atomic::AtomicU64::new(0);

impl Scratch {
    pub fn new() -> Self {
        let n = COUNTER.fetch_add(1, std::sync::atomic::Ordering::Relaxed);
        // a short, fixed-length name keeps absolute paths (and therefore `pwd` output) the same
        // length from case to case
        let dir = scratch_base().join(format!("c{}", n % 1000));
        let _ = fs::remove_dir_all(&dir);
        let root = dir.join("root");
        let mark = dir.join("mark");
        fs::create_dir_all(&root).expect("create scratch root");
        fs::create_dir_all(&mark).expect("create scratch mark");
        Self { dir, root, mark }
    }
    pub fn root_str(&self) -> String {
        self.root.to_str().unwrap().to_string()
    }
    pub fn mark_str(&self) -> String {
        self.mark.to_str().unwrap().to_string()
    }
    /// remove and recreate root and mark
    pub fn reset(&self) {
        let _ = fs::remove_dir_all(&self.root);
        let _ = fs::remove_dir_all(&self.mark);
        fs::create_dir_all(&self.root).expect("create scratch root");
        fs::create_dir_all(&self.mark).expect("create scratch mark");
    }
    pub fn markers(&self) -> BTreeMap<String, u32> {
        let mut m = BTreeMap::new();
        if let Ok(s) = fs::read_to_string(self.mark.join("log")) {
            for l in s.lines() {
                *m.entry(l.to_string()).or_insert(0) += 1;
            }
        }
        m
    }
    pub fn marker_lines(&self) -> Vec<String> {
        fs::read_to_string(self.mark.join("log"))
            .map(|s| s.lines().map(String::from).collect())
            .unwrap_or_default()
    }
}

impl Drop for Scratch {
    fn drop(&mut self) {
        let _ = fs::remove_dir_all(&self.dir);
    }
}

pub fn cleanup_base() {
    let _ = fs::remove_dir_all(scratch_base());
}

pub fn write_tree(root: &Path, files: &BTreeMap<String, Vec<u8>>, dirs: &std::collections::BTreeSet<String>) {
    for d in dirs {
        fs::create_dir_all(root.join(d)).expect("mkdir");
    }
    for (k, v) in files {
        let p = root.join(k);
        if let Some(par) = p.parent() {
            fs::create_dir_all(par).expect("mkdir");
        }
        fs::write(&p, v).unwrap_or_else(|e| panic!("write {}: {e}", p.display()));
    }
}

#[derive(Debug, Clone, PartialEq, Eq)]
pub struct Entry {
    pub is_dir: bool,
    pub bytes: Vec<u8>,
    pub ino: u64,
    pub mtime_ns: i128,
    pub mode: u32,
}

pub type Snapshot = BTreeMap<String, Entry>;

pub fn snapshot(root: &Path) -> Snapshot {
    let mut s = Snapshot::new();
    fn walk(root: &Path, dir: &Path, s: &mut Snapshot) {
        let Ok(rd) = fs::read_dir(dir) else { return };
        for e in rd.flatten() {
            let p = e.path();
            let rel = p.strip_prefix(root).unwrap().to_str().unwrap().to_string();
            let Ok(md) = fs::symlink_metadata(&p) else { continue };
            let mt = md.mtime() as i128 * 1_000_000_000 + md.mtime_nsec() as i128;
            if md.is_dir() {
                s.insert(
                    rel,
                    Entry {
                        is_dir: true,
                        bytes: vec![],
                        ino: md.ino(),
                        mtime_ns: 0, // directory mtimes change when entries are added; not tracked
                        mode: md.mode(),
                    },
                );
                walk(root, &p, s);
            } else {
                s.insert(
                    rel,
                    Entry {
                        is_dir: false,
                        bytes: fs::read(&p).unwrap_or_default(),
                        ino: md.ino(),
                        mtime_ns: mt,
                        mode: md.mode(),
                    },
                );
            }
        }
    }
    walk(root, root, &mut s);
    s
}

/// files only: path -> bytes
pub fn read_tree(root: &Path) -> BTreeMap<String, Vec<u8>> {
    snapshot(root)
        .into_iter()
        .filter(|(_, e)| !e.is_dir)
        .map(|(k, e)| (k, e.bytes))
        .collect()
}

pub const SENTINEL_SECS: i64 = 1_000_000_000; // 2001-09-09

/// set the mtime of every regular file below root to the sentinel
pub fn stamp(root: &Path) {
    fn walk(dir: &Path) {
        let Ok(rd) = fs::read_dir(dir) else { return };
        for e in rd.flatten() {
            let p = e.path();
            let Ok(md) = fs::symlink_metadata(&p) else { continue };
            if md.is_dir() {
                walk(&p);
            } else {
                set_mtime(&p, SENTINEL_SECS);
            }
        }
    }
    walk(root);
}

pub fn set_mtime(p: &Path, secs: i64) {
    use std::os::unix::ffi::OsStrExt;
    let c = std::ffi::CString::new(p.as_os_str().as_bytes()).unwrap();
    let ts = [
        libc::timespec { tv_sec: secs, tv_nsec: 0 },
        libc::timespec { tv_sec: secs, tv_nsec: 0 },
    ];
    unsafe {
        libc::utimensat(libc::AT_FDCWD, c.as_ptr(), ts.as_ptr(), 0);
    }
}

#[derive(Debug, Clone, PartialEq, Eq)]
pub enum Change {
    Created,
    Deleted,
    Content,
    /// same bytes, but rewritten (mtime or inode changed)
    Touched,
}

pub fn diff(before: &Snapshot, after: &Snapshot) -> BTreeMap<String, Change> {
    let mut d = BTreeMap::new();
    for (k, b) in before {
        match after.get(k) {
            None => {
                d.insert(k.clone(), Change::Deleted);
            }
            Some(a) => {
                if a.is_dir != b.is_dir || a.bytes != b.bytes {
                    d.insert(k.clone(), Change::Content);
                } else if !a.is_dir && (a.ino != b.ino || a.mtime_ns != b.mtime_ns) {
                    d.insert(k.clone(), Change::Touched);
                }
            }
        }
    }
    for k in after.keys() {
        if !before.contains_key(k) {
            d.insert(k.clone(), Change::Created);
        }
    }
    d
}
