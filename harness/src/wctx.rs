//! Worker-side context: counters, samples, violations, journal; proptest driver.

use crate::gen::Choices;
use proptest::test_runner::{Config, RngSeed, TestCaseError, TestError, TestRunner};
use serde::{Deserialize, Serialize};
use serde_json::Value;
use std::cell::RefCell;
use std::collections::{BTreeMap, BTreeSet};
use std::hash::{Hash, Hasher};
use std::path::PathBuf;

#[derive(Debug, Clone, Serialize, Deserialize)]
pub struct Violation {
    pub message: String,
    /// stable identification of what fails (matched against known_findings.json)
    pub signature: String,
    pub case: Value,
}

#[derive(Debug, Clone, Default, Serialize, Deserialize)]
pub struct Stats {
    pub evaluations: u64,
    /// hashes of distinct non-trivial cases
    pub nontrivial: BTreeSet<u64>,
    /// non-trivial cases that are distinct by construction (enumerations)
    pub nontrivial_counted: u64,
    pub classes: BTreeMap<String, u64>,
    pub excluded: BTreeMap<String, u64>,
    pub samples: Vec<Value>,
    pub violations: Vec<Violation>,
    pub notes: Vec<String>,
    /// enumerated scopes that were covered completely (name -> size)
    pub exhaustive: BTreeMap<String, u64>,
    pub infra: Vec<String>,
    pub counters: BTreeMap<String, u64>,
}

impl Stats {
    pub fn class(&mut self, c: &str) {
        *self.classes.entry(c.to_string()).or_insert(0) += 1;
    }
    pub fn count(&mut self, c: &str, n: u64) {
        *self.counters.entry(c.to_string()).or_insert(0) += n;
    }
    pub fn exclude(&mut self, reason: &str) {
        // keep reasons coarse: strip file names
        let key = match reason.find(": ") {
            Some(i) if reason[..i].contains('.') => &reason[i + 2..],
            _ => reason,
        };
        let key: String = key.chars().take(90).collect();
        *self.excluded.entry(key).or_insert(0) += 1;
    }
    pub fn nontrivial_hash<T: Hash>(&mut self, t: &T) {
        let mut h = std::collections::hash_map::DefaultHasher::new();
        t.hash(&mut h);
        self.nontrivial.insert(h.finish());
    }
    pub fn sample(&mut self, v: impl FnOnce() -> Value, max: usize) {
        if self.samples.len() < max {
            self.samples.push(v());
        }
    }
    pub fn merge(&mut self, o: Stats) {
        self.evaluations += o.evaluations;
        self.nontrivial.extend(o.nontrivial);
        self.nontrivial_counted += o.nontrivial_counted;
        for (k, v) in o.classes {
            *self.classes.entry(k).or_insert(0) += v;
        }
        for (k, v) in o.excluded {
            *self.excluded.entry(k).or_insert(0) += v;
        }
        for (k, v) in o.counters {
            *self.counters.entry(k).or_insert(0) += v;
        }
        for (k, v) in o.exhaustive {
            *self.exhaustive.entry(k).or_insert(0) += v;
        }
        for s in o.samples {
            if self.samples.len() < 6 {
                self.samples.push(s);
            }
        }
        self.violations.extend(o.violations);
        self.notes.extend(o.notes);
        self.infra.extend(o.infra);
    }
}

pub struct WorkerCtx {
    pub prop: String,
    pub quick: bool,
    pub seed: u64,
    pub shard: usize,
    pub nshards: usize,
    pub out: PathBuf,
    pub stats: Stats,
}

static BEAT: std::sync::Mutex<Option<(PathBuf, std::time::Instant)>> = std::sync::Mutex::new(None);

/// register the journal file of this worker for `beat`
pub fn set_beat_path(p: PathBuf) {
    *BEAT.lock().unwrap_or_else(|e| e.into_inner()) = Some((p, std::time::Instant::now()));
}

/// heartbeat for long enumerations that do not journal every case (at most one write per second)
pub fn beat() {
    let mut g = BEAT.lock().unwrap_or_else(|e| e.into_inner());
    if let Some((p, last)) = g.as_mut() {
        if last.elapsed() > std::time::Duration::from_secs(1) {
            let _ = std::fs::write(&*p, b"null");
            *last = std::time::Instant::now();
        }
    }
}

pub fn mix(seed: u64, prop: &str, shard: usize, salt: u64) -> u64 {
    let mut h = std::collections::hash_map::DefaultHasher::new();
    // DefaultHasher::new() uses fixed keys: stable within a toolchain
    (seed, prop, shard as u64, salt).hash(&mut h);
    h.finish()
}

impl WorkerCtx {
    pub fn journal_path(&self) -> PathBuf {
        let mut p = self.out.clone().into_os_string();
        p.push(".journal");
        PathBuf::from(p)
    }
    /// record the case that is about to run (so that a crash or hang can be attributed)
    pub fn journal(&self, case: &Value) {
        let _ = std::fs::write(self.journal_path(), serde_json::to_vec(case).unwrap_or_default());
    }
    pub fn heartbeat(&self) {
        let _ = std::fs::write(self.journal_path(), b"null");
    }
    pub fn save(&self) {
        let tmp = self.out.with_extension("part");
        std::fs::write(&tmp, serde_json::to_vec(&self.stats).unwrap()).expect("write stats");
        std::fs::rename(&tmp, &self.out).expect("rename stats");
    }
    /// this shard's share of `total` cases
    pub fn share(&self, total: u64) -> u64 {
        let n = self.nshards as u64;
        total / n + if (self.shard as u64) < total % n { 1 } else { 0 }
    }

    /// Drive a property with proptest over choice sequences.
    ///
    /// `gen` builds a case from choices; `check` runs it and returns Err(message) on a
    /// violation (it may update the stats it is given; they are discarded once a failure has
    /// been seen, because proptest re-runs the closure while shrinking). `reduce` proposes
    /// structurally smaller variants of a failing case.
    pub fn drive<C: Clone + Serialize>(
        &mut self,
        salt: u64,
        cases: u64,
        max_len: usize,
        gen: &dyn Fn(&mut Choices) -> C,
        check: &dyn Fn(&C, &mut Stats) -> Result<(), (String, String)>,
        reduce: &dyn Fn(&C) -> Vec<C>,
    ) {
        if cases == 0 {
            return;
        }
        let seed = mix(self.seed, &self.prop, self.shard, salt);
        let config = Config {
            cases: cases as u32,
            failure_persistence: None,
            rng_seed: RngSeed::Fixed(seed),
            max_shrink_iters: 600,
            max_global_rejects: 1024,
            ..Config::default()
        };
        let mut runner = TestRunner::new(config);
        let strat = proptest::collection::vec(proptest::num::u16::ANY, 0..max_len);
        let failed = RefCell::new(false);
        let stats = RefCell::new(std::mem::take(&mut self.stats));
        let journal_path = self.journal_path();
        let result = runner.run(&strat, |choices| {
            let mut c = Choices::new(&choices);
            let case = gen(&mut c);
            if !*failed.borrow() {
                let _ = std::fs::write(&journal_path, serde_json::to_vec(&case).unwrap_or_default());
                let mut st = stats.borrow_mut();
                st.evaluations += 1;
                match check(&case, &mut st) {
                    Ok(()) => Ok(()),
                    Err((m, _sig)) => {
                        *failed.borrow_mut() = true;
                        Err(TestCaseError::fail(m))
                    }
                }
            } else {
                let mut scratch = Stats::default();
                match check(&case, &mut scratch) {
                    Ok(()) => Ok(()),
                    Err((m, _)) => Err(TestCaseError::fail(m)),
                }
            }
        });
        self.stats = stats.into_inner();
        match result {
            Ok(()) => {}
            Err(TestError::Fail(_reason, choices)) => {
                let mut c = Choices::new(&choices);
                let mut case = gen(&mut c);
                let mut scratch = Stats::default();
                let (mut msg, mut sig) = match check(&case, &mut scratch) {
                    Err(e) => e,
                    Ok(()) => {
                        // not reproducible: timing-dependent; report the first message
                        self.stats.notes.push("failure did not reproduce on re-run of the shrunk case".into());
                        (format!("{_reason}"), "unreproducible".to_string())
                    }
                };
                // structural reduction (greedy)
                let mut progress = true;
                let mut rounds = 0;
                while progress && rounds < 400 {
                    progress = false;
                    rounds += 1;
                    for cand in reduce(&case) {
                        let mut s2 = Stats::default();
                        if let Err((m2, sig2)) = check(&cand, &mut s2) {
                            case = cand;
                            msg = m2;
                            sig = sig2;
                            progress = true;
                            break;
                        }
                    }
                }
                self.stats.violations.push(Violation {
                    message: msg,
                    signature: sig,
                    case: serde_json::to_value(&case).unwrap_or(Value::Null),
                });
            }
            Err(TestError::Abort(r)) => {
                self.stats.infra.push(format!("proptest aborted: {r}"));
            }
        }
    }
}
