//! vfy — property-based verification harness for txtpp (see /verif/DESIGN.md)
//!
//!   vfy check <ID> --tier quick|thorough        orchestrator (evidence, exit status)
//!   vfy worker <ID> --tier T --shard i/n --seed S --out FILE
//!   vfy replay <file.json>                      re-check one saved case, verbose
//!   vfy replay-case <ID> <file.json>            same, machine-readable (used by the orchestrator)

use vfy::{child, fsx, orch, props, runner, wctx};

use serde_json::Value;
use std::path::PathBuf;

fn arg_after(args: &[String], flag: &str) -> Option<String> {
    args.iter().position(|a| a == flag).and_then(|i| args.get(i + 1).cloned())
}

fn limits() {
    // a change to txtpp that loops while writing must not fill /dev/shm (RAM)
    unsafe {
        let lim = libc::rlimit { rlim_cur: 64 << 20, rlim_max: 64 << 20 };
        libc::setrlimit(libc::RLIMIT_FSIZE, &lim);
        libc::signal(libc::SIGXFSZ, libc::SIG_IGN);
        let lim = libc::rlimit { rlim_cur: 16 << 30, rlim_max: 16 << 30 };
        libc::setrlimit(libc::RLIMIT_AS, &lim);
    }
}

fn replay_file(path: &str) -> (String, Value) {
    let b = std::fs::read(path).unwrap_or_else(|e| {
        eprintln!("cannot read {path}: {e}");
        std::process::exit(2)
    });
    let v: Value = serde_json::from_slice(&b).unwrap_or_else(|e| {
        eprintln!("cannot parse {path}: {e}");
        std::process::exit(2)
    });
    let prop = v.get("property").and_then(|p| p.as_str()).unwrap_or("").to_string();
    let case = v.get("case").cloned().unwrap_or(Value::Null);
    (prop, case)
}

fn main() {
    let args: Vec<String> = std::env::args().collect();
    let cmd = args.get(1).map(|s| s.as_str()).unwrap_or("");
    match cmd {
        "check" => {
            let id = args.get(2).cloned().unwrap_or_default();
            let mut tier = arg_after(&args, "--tier").unwrap_or_else(|| "quick".into());
            if let Ok(t) = std::env::var("VERIF_TIER") {
                if t == "quick" || t == "thorough" {
                    tier = t;
                }
            }
            std::process::exit(orch::check(&id, tier == "quick"));
        }
        "worker" => {
            limits();
            runner::init_panic_hook();
            let id = args.get(2).cloned().unwrap_or_default();
            let tier = arg_after(&args, "--tier").unwrap_or_else(|| "quick".into());
            let shard = arg_after(&args, "--shard").unwrap_or_else(|| "0/1".into());
            let (i, n) = shard.split_once('/').unwrap();
            let seed: u64 = arg_after(&args, "--seed").and_then(|s| s.parse().ok()).unwrap_or(0);
            let out = PathBuf::from(arg_after(&args, "--out").expect("--out"));
            let prop = props::get(&id).expect("property");
            let mut ctx = wctx::WorkerCtx {
                prop: id.clone(),
                quick: tier == "quick",
                seed,
                shard: i.parse().unwrap(),
                nshards: n.parse().unwrap(),
                out,
                stats: Default::default(),
            };
            wctx::set_beat_path(ctx.journal_path());
            ctx.heartbeat();
            // run on a named thread with a large stack
            let handle = std::thread::Builder::new()
                .name(runner::CASE_THREAD.into())
                .stack_size(256 << 20)
                .spawn(move || {
                    prop.worker(&mut ctx);
                    ctx.save();
                })
                .expect("spawn case thread");
            let r = handle.join();
            fsx::cleanup_base();
            if r.is_err() {
                std::process::exit(3);
            }
        }
        "fuzz-decode" => {
            // vfy fuzz-decode <libFuzzer artifact> <replay.json>: exit 1 if the case violates C18
            limits();
            runner::init_panic_hook();
            let data = std::fs::read(args.get(2).map(|s| s.as_str()).unwrap_or("")).unwrap_or_default();
            let out = args.get(3).cloned().unwrap_or_default();
            let handle = std::thread::Builder::new()
                .name(runner::CASE_THREAD.into())
                .stack_size(256 << 20)
                .spawn(move || {
                    vfy::props::c18::ensure_confined(&[]);
                    vfy::props::c18::fuzz_one(&data)
                })
                .expect("spawn");
            let r = handle.join();
            fsx::cleanup_base();
            match r {
                Ok(Ok(())) => {
                    println!("fuzz artifact does not reproduce on the optimised build");
                    std::process::exit(0);
                }
                Ok(Err(m)) => {
                    let (msg, case) = m.split_once("\nCASE ").unwrap_or((&m, "null"));
                    let case: Value = serde_json::from_str(case).unwrap_or(Value::Null);
                    let sig = msg.split(": ").next().unwrap_or("C18").to_string();
                    let body = serde_json::json!({"property": "C18", "tier": "thorough", "signature": sig, "message": msg, "case": case, "found_by": "libFuzzer"});
                    let _ = std::fs::write(&out, serde_json::to_vec_pretty(&body).unwrap());
                    println!("SIGNATURE {sig}");
                    println!("MESSAGE {}", msg.replace('\n', " | "));
                    std::process::exit(1);
                }
                Err(_) => std::process::exit(3),
            }
        }
        "child-run" => {
            if std::env::var("VFY_NO_LIMITS").is_err() {
                limits();
            }
            std::process::exit(child::child_main(args.get(2).map(|s| s.as_str()).unwrap_or("")));
        }
        "replay" | "replay-case" => {
            limits();
            runner::init_panic_hook();
            let (file, forced) = if cmd == "replay" {
                (args.get(2).cloned().unwrap_or_default(), None)
            } else {
                (args.get(3).cloned().unwrap_or_default(), args.get(2).cloned())
            };
            let (p, case) = replay_file(&file);
            let id = forced.unwrap_or(p);
            let Some(prop) = props::get(&id) else {
                eprintln!("unknown property {id:?}");
                std::process::exit(2);
            };
            let handle = std::thread::Builder::new()
                .name(runner::CASE_THREAD.into())
                .stack_size(256 << 20)
                .spawn(move || prop.replay(&case))
                .expect("spawn case thread");
            let r = handle.join();
            fsx::cleanup_base();
            match r {
                Ok(Ok(())) => {
                    println!("PASS {id} {file}");
                }
                Ok(Err((m, s))) => {
                    println!("SIGNATURE {s}");
                    println!("MESSAGE {}", m.replace('\n', " | "));
                    println!("VIOLATION property={id} replay={file}");
                    if cmd == "replay" {
                        println!("{m}");
                    }
                    std::process::exit(1);
                }
                Err(_) => std::process::exit(3),
            }
        }
        _ => {
            eprintln!("usage: vfy check <ID> --tier quick|thorough | vfy replay <file>");
            std::process::exit(2);
        }
    }
}
