//! C06 — verify passes exactly when outputs are up to date, and is read-only.
//! Differential, model-free oracle: verify Ok <=> every output in the verified closure is
//! byte-identical to what `build` with verify's options writes now from the current sources.

use super::common::{materialise, Bytes, Setup};
use super::{reduce_project, viol, Check, Prop, PropMeta};
use crate::ctl::{Event, Pass};
use crate::fsx;
use crate::gen::project::{gen_project, FileData, GenParams, Project};
use crate::gen::Choices;
use crate::model::{names, Verdict};
use crate::runner::{self, ModeS, Outcome, RunOpts};
use crate::wctx::{Stats, WorkerCtx};
use serde::{Deserialize, Serialize};
use serde_json::Value;
use std::collections::BTreeSet;

pub struct C06;

#[derive(Debug, Clone, PartialEq, Eq, Serialize, Deserialize)]
pub enum Op {
    Flip,
    Insert,
    Delete,
    Append,
    Truncate,
    RemoveFile,
    /// keep the fresh bytes as a prefix and add text
    Extend,
    Replace,
    /// turn the first U+FFFD of the file (EF BF BD) into the malformed sequence F0 BF BD, which
    /// a lossy decoder reads as U+FFFD again; a plain Flip when the file has none
    LossyTwin,
}

#[derive(Debug, Clone, Serialize, Deserialize)]
pub enum Change {
    None,
    /// tamper the k-th generated output (index into the sorted list, mapped monotonically)
    Tamper { which: u16, op: Op, pos: u16 },
    /// verify with the other trailing-newline setting
    OptionMismatch,
    /// edit the k-th source after the build
    SourceEdit { which: u16, edit: u8 },
}

#[derive(Debug, Clone, Serialize, Deserialize)]
pub struct Case {
    pub project: Project,
    pub build: RunOpts,
    /// inputs / recursive flag used for verify (may name fewer files than the build)
    pub verify_inputs: Vec<String>,
    pub verify_recursive: bool,
    pub change: Change,
    /// completion order of the verify run: None = real concurrency, Some = the controller picks
    /// which gated task completes next (choices mapped monotonically)
    #[serde(default)]
    pub verify_schedule: Option<Vec<u16>>,
    /// modification times at verify: 0 = all equal, 1 = every source newer than the generated
    /// files (a re-saved source, a fresh checkout), 2 = every source older
    #[serde(default)]
    pub source_mtimes: u8,
}

fn gen_case(c: &mut Choices) -> Case {
    let p = GenParams {
        error_rate: 1,
        max_sources: 4,
        max_items: 7,
        ..GenParams::default()
    };
    let mut project = gen_project(c, &p);
    if c.chance(1, 6) {
        // an output whose length sits on a read/write buffer boundary (8 KiB BufReader/BufWriter)
        let len = *c.pick(&[8192usize, 8191, 8193, 16384, 8192 * 3]);
        let mut s = String::new();
        while s.len() + 65 <= len {
            s.push_str("0123456789abcdef0123456789abcdef0123456789abcdef0123456789abcdef\n");
        }
        while s.len() + 1 < len {
            s.push('x');
        }
        s.push('\n');
        project.put("big.txtpp.txt", s);
    }
    let with_replacement_char = c.chance(1, 6);
    if with_replacement_char {
        // what a command printing non-UTF-8 bytes leaves in an output
        project.put("rep.txt.txtpp", "x\u{fffd}y\n\u{fffd}\n".to_string());
    }
    let build = RunOpts {
        mode: ModeS::Build,
        trailing_newline: !c.chance(1, 4),
        threads: 1 + c.below(4),
        recursive: true,
        inputs: vec![".".into()],
        shell: String::new(),
    };
    let (verify_inputs, verify_recursive) = if c.chance(2, 3) {
        (vec![".".to_string()], true)
    } else {
        super::c01::gen_inputs(c, &project)
    };
    let change = match c.weighted(&[2, 12, 2, 3]) {
        0 => Change::None,
        1 => Change::Tamper {
            which: c.raw(),
            op: match if with_replacement_char && c.chance(1, 2) { 8 } else { c.below(8) } {
                8 => Op::LossyTwin,
                0 => Op::Flip,
                1 => Op::Insert,
                2 => Op::Delete,
                3 => Op::Append,
                4 => Op::Truncate,
                5 => Op::RemoveFile,
                6 => Op::Extend,
                _ => Op::Replace,
            },
            pos: *c.pick(&[0u16, 0, 1, 32767, 65534, 65535]),
        },
        2 => Change::OptionMismatch,
        _ => Change::SourceEdit { which: c.raw(), edit: c.below(6) as u8 },
    };
    let verify_schedule = if c.chance(1, 2) { Some((0..c.below(12)).map(|_| c.raw()).collect()) } else { None };
    let source_mtimes = c.weighted(&[2, 1, 1]) as u8;
    Case { project, build, verify_inputs, verify_recursive, change, verify_schedule, source_mtimes }
}

pub fn tamper(b: &[u8], op: &Op, pos: u16) -> Option<Vec<u8>> {
    let len = b.len();
    // position classes: first, second, middle, last-1, last (mapped monotonically)
    let at = |n: usize| -> usize {
        if n == 0 {
            0
        } else {
            ((pos as usize) * n) >> 16
        }
    };
    let mut v = b.to_vec();
    match op {
        Op::Flip => {
            if len == 0 {
                return Some(b"x".to_vec());
            }
            let i = at(len);
            v[i] ^= 0x01;
        }
        Op::Insert => {
            let i = at(len + 1);
            v.insert(i, b'#');
        }
        Op::Delete => {
            if len == 0 {
                return Some(b"\n".to_vec());
            }
            v.remove(at(len));
        }
        Op::Append => v.push(b'\n'),
        Op::Truncate => {
            if len == 0 {
                return Some(b" ".to_vec());
            }
            v.truncate(at(len)); // 0 .. len-1
        }
        Op::RemoveFile => return None,
        Op::Extend => v.extend_from_slice(b"extra text\n"),
        Op::Replace => v = b"not the same".to_vec(),
        Op::LossyTwin => {
            let hit = (0..len.saturating_sub(2)).find(|&i| v[i] == 0xEF && v[i + 1] == 0xBF && v[i + 2] == 0xBD && v.get(i + 3).map(|b| *b < 0x80 || *b >= 0xC0).unwrap_or(true));
            match hit {
                Some(i) => v[i] = 0xF0,
                None if len == 0 => return Some(b"x".to_vec()),
                None => {
                    let i = at(len);
                    v[i] ^= 0x01;
                }
            }
        }
    }
    Some(v)
}

/// sources processed in a run (first-pass spawns), relative to the root
pub fn processed(out: &Outcome, root: &str) -> BTreeSet<String> {
    let mut s = BTreeSet::new();
    for e in &out.report.trace {
        if let Event::Spawn(_, path, Pass::First) = e {
            if let Some(r) = path.strip_prefix(root) {
                s.insert(r.trim_start_matches('/').to_string());
            }
        }
    }
    s
}

/// Reference build in the same root and from the same state: save what is on disk at
/// non-source paths, run a normal build with `opts` on the tree as it is (leftovers included: a
/// file that the current sources no longer generate but still read is the user's business, not
/// a difference between modes), record (verdict, generated files, processed sources), then put
/// the saved files back.
pub fn reference_build(su: &Setup, current_sources: &Bytes, opts: &RunOpts) -> (Outcome, Bytes, BTreeSet<String>) {
    let now = fsx::read_tree(&su.sc.root);
    let saved: Bytes = now.into_iter().filter(|(k, _)| !current_sources.contains_key(k)).collect();
    let mut o = opts.clone();
    o.mode = ModeS::Build;
    let out = runner::run_free(&su.sc.root, &o);
    let after = fsx::read_tree(&su.sc.root);
    let fresh: Bytes = after.into_iter().filter(|(k, _)| !current_sources.contains_key(k)).collect();
    let proc = processed(&out, &su.root);
    for p in fresh.keys() {
        let _ = std::fs::remove_file(su.sc.root.join(p));
    }
    for (p, b) in &saved {
        std::fs::write(su.sc.root.join(p), b).expect("restore");
    }
    (out, fresh, proc)
}

pub fn check(case: &Case, st: &mut Stats) -> Check {
    let su = materialise(&case.project);
    let ex = su.expect(&case.project, &case.build);
    match &ex.verdict {
        Verdict::Excluded(r) => {
            st.exclude(r);
            return Ok(());
        }
        Verdict::Err(..) => {
            st.class("skipped_erroneous_project");
            return Ok(());
        }
        Verdict::Ok => {}
    }
    su.write(&case.project);
    let built = runner::run_free(&su.sc.root, &case.build);
    if !built.ok {
        st.class("skipped_build_failed");
        return Ok(());
    }
    let mut sources: Bytes = su.tree.clone();
    let outputs_all: Vec<String> = case.project.sources().iter().filter_map(|s| names::output_of(s)).collect();
    let mut vopts = case.build.clone();
    vopts.mode = ModeS::Verify;
    vopts.inputs = case.verify_inputs.clone();
    vopts.recursive = case.verify_recursive;
    // apply the change
    let mut label = "untampered".to_string();
    match &case.change {
        Change::None => {}
        Change::Tamper { which, op, pos } => {
            let existing: Vec<&String> = outputs_all.iter().filter(|o| su.sc.root.join(o).is_file()).collect();
            if existing.is_empty() {
                st.class("skipped_no_outputs");
                return Ok(());
            }
            let o = existing[((*which as usize) * existing.len()) >> 16];
            let p = su.sc.root.join(o);
            let b = std::fs::read(&p).unwrap_or_default();
            match tamper(&b, op, *pos) {
                Some(nb) => std::fs::write(&p, nb).expect("tamper"),
                None => std::fs::remove_file(&p).expect("remove"),
            }
            let class = if b.is_empty() { "empty" } else if *pos == 0 { "first" } else if *pos >= 65534 { "last" } else { "middle" };
            label = format!("tamper:{op:?}/{class}");
        }
        Change::OptionMismatch => {
            vopts.trailing_newline = !vopts.trailing_newline;
            label = "option_mismatch".into();
        }
        Change::SourceEdit { which, edit } => {
            let srcs = case.project.sources();
            if srcs.is_empty() {
                return Ok(());
            }
            let s = &srcs[((*which as usize) * srcs.len()) >> 16];
            let mut b = sources[s].clone();
            match edit {
                0 => b.extend_from_slice(b"appended line\n"),
                1 => {
                    let mut nb = b"new first line\n".to_vec();
                    nb.extend_from_slice(&b);
                    b = nb;
                }
                2 => b.extend_from_slice(b"-TXTPP#\n"), // an empty directive: often no visible change
                4 | 5 => {
                    // change only the body of a temp directive (the line after its first line);
                    // fall back to appending a line when the source has none
                    let text = String::from_utf8_lossy(&b).to_string();
                    let mut lines: Vec<String> = text.split_inclusive('\n').map(String::from).collect();
                    let at = (0..lines.len().saturating_sub(1)).find(|i| lines[*i].contains("TXTPP#temp ") && !lines[*i + 1].contains("TXTPP#"));
                    match at {
                        Some(i) => {
                            let l = lines[i + 1].clone();
                            let body = l.trim_end_matches(['\n', '\r']);
                            let term = &l[body.len()..];
                            lines[i + 1] = format!("{body}EDITED{term}");
                        }
                        None => lines.push("appended line\n".to_string()),
                    }
                    b = lines.concat().into_bytes();
                }
                _ => {
                    if let Some(i) = b.iter().position(|x| x.is_ascii_lowercase()) {
                        b[i] = b[i].to_ascii_uppercase();
                    }
                }
            }
            std::fs::write(su.sc.root.join(s), &b).expect("edit");
            sources.insert(s.clone(), b);
            label = format!("source_edit:{edit}");
        }
    }
    // what a build with verify's options would write now
    let on_disk_before: Bytes = fsx::read_tree(&su.sc.root);
    let mut ropts = vopts.clone();
    ropts.mode = ModeS::Build;
    let (rout, fresh, closure) = reference_build(&su, &sources, &ropts);
    let closure_outputs: BTreeSet<String> = closure.iter().filter_map(|s| names::output_of(s)).collect();
    let mut expect_ok = rout.ok;
    let mut differing: Vec<String> = vec![];
    for o in &closure_outputs {
        if fresh.get(o) != on_disk_before.get(o) {
            expect_ok = false;
            differing.push(o.clone());
        }
    }
    // verify, with sentinel mtimes so that a rewrite with identical bytes is visible
    fsx::stamp(&su.sc.root);
    if case.source_mtimes != 0 {
        let t = if case.source_mtimes == 1 { fsx::SENTINEL_SECS + 1000 } else { fsx::SENTINEL_SECS - 1000 };
        for p in su.tree.keys() {
            fsx::set_mtime(&su.sc.root.join(p), t);
        }
        st.class(if case.source_mtimes == 1 { "sources_newer_than_outputs" } else { "sources_older_than_outputs" });
    }
    let snap_before = fsx::snapshot(&su.sc.root);
    let ver = match &case.verify_schedule {
        None => runner::run_free(&su.sc.root, &vopts),
        Some(s) => {
            // a pool large enough for every task: the controller alone decides the order
            let mut o = vopts.clone();
            o.threads = 2 * case.project.sources().len() + 4;
            let ctl = crate::ctl::Ctl::controlled(o.threads, Box::new(crate::ctl::StreamChooser { data: s.clone(), pos: 0, taken: vec![] }));
            let r = runner::run(&su.sc.root, &o, std::sync::Arc::new(ctl));
            if let Some(i) = &r.report.infra {
                st.infra.push(i.clone());
                return Ok(());
            }
            st.class("verify_under_controlled_schedule");
            r
        }
    };
    let snap_after = fsx::snapshot(&su.sc.root);
    st.class(&label);
    st.class(if expect_ok { "expect_verify_ok" } else { "expect_verify_err" });
    let inside = !differing.is_empty();
    if inside || matches!(case.change, Change::None) {
        st.nontrivial_hash(&serde_json::to_string(case).unwrap());
    }
    st.sample(|| serde_json::json!({"case": case, "differing_outputs": differing, "verify_ok": ver.ok}), 3);
    if !rout.ok && !matches!(case.change, Change::SourceEdit { .. }) {
        // the reference build failed although the first build succeeded and sources are unchanged:
        // an output was tampered that the build itself reads (dependency): fine, expect_ok is false
    }
    if ver.ok && !expect_ok {
        return viol(
            &format!("C06 verify-passes-on-stale {}", label.split('/').next().unwrap_or("")),
            format!(
                "verify succeeded although {differing:?} differ from what a build would write now ({label}){}",
                if !rout.ok { "; a build of the current tree fails" } else { "" }
            ),
        );
    }
    if !ver.ok && expect_ok {
        return viol(
            "C06 verify-fails-on-fresh",
            format!(
                "verify failed although every output of the verified closure {closure_outputs:?} is byte-identical to a fresh build ({label}): {}",
                super::common::short_err(&ver.err)
            ),
        );
    }
    // read-only on outputs
    let d = fsx::diff(&snap_before, &snap_after);
    for o in &outputs_all {
        if let Some(ch) = d.get(o) {
            return viol(
                &format!("C06 verify-not-read-only {ch:?}"),
                format!("verify {ch:?} the output file {o} ({label})"),
            );
        }
    }
    Ok(())
}

fn reduce(case: &Case) -> Vec<Case> {
    let mut v: Vec<Case> = reduce_project(&case.project)
        .into_iter()
        .filter(|p| p.files.values().all(|f| matches!(f, FileData::Text(_) | FileData::Bytes(_))))
        .map(|p| Case { project: p, ..case.clone() })
        .collect();
    if case.verify_inputs != vec![".".to_string()] {
        let mut c = case.clone();
        c.verify_inputs = vec![".".into()];
        c.verify_recursive = true;
        v.push(c);
    }
    v
}

impl Prop for C06 {
    fn meta(&self) -> PropMeta {
        PropMeta {
            id: "C06",
            level: "exploration",
            rule: "cases = generated successful projects (dependencies, temp files, nested directories) built in-process, then one change: a single-point tampering of one output (flip / insert / delete a byte at first, middle or last position, append, truncate to 0..len-1, delete the file, extend with the fresh bytes as prefix, replace), the other trailing-newline setting for verify, or a source edit after the build; verify runs on the whole tree or on a subset of inputs, with file times all equal, sources newer than generated files, or older. Oracle (differential, model-free): in the same root the on-disk generated files are saved, a build with verify's options and inputs is run and recorded, the saved files are restored; verify must succeed iff every output of the verified closure (first-pass tasks seen in the hook trace of that build) is byte-identical on disk, and must leave every output path untouched (bytes, inode, mtime pre-set to a sentinel; none created or deleted). Non-trivial = untampered control, or a change that makes >=1 output of the closure differ; distinct by hash of the case.",
            assumptions: vec!["builds are deterministic for generated projects (commands from the closed vocabulary)"],
            hang_is_violation: false,
            needs_cli: false,
        }
    }
    fn worker(&self, ctx: &mut WorkerCtx) {
        let total = if ctx.quick { 30_000 } else { 600_000 };
        let n = ctx.share(total);
        ctx.drive(1, n, 600, &gen_case, &check, &reduce);
    }
    fn replay(&self, case: &Value) -> Check {
        let case: Case = serde_json::from_value(case.clone()).map_err(|e| (format!("bad case: {e}"), "bad-case".to_string()))?;
        check(&case, &mut Stats::default())
    }
}
