//! C14 — tags: stored once, substituted once, leftmost-first, never re-expanded; deterministic.
//! (a) bounded-exhaustive differential test of txtpp's `TagState` (verif re-export) against a
//!     list-based model, each scenario on 4 fresh stores (hash seeds differ);
//! (b) generated whole files (tag-heavy) against the reference model, built twice.

use super::c01;
use super::{viol, Check, Prop, PropMeta};
use crate::gen::project::{gen_project, GenParams};
use crate::gen::Choices;
use crate::model::tags::Tags;
use crate::runner::{ModeS, RunOpts};
use crate::wctx::{Stats, Violation, WorkerCtx};
use serde::{Deserialize, Serialize};
use serde_json::Value;
use txtpp::verif::TagState;

pub struct C14;

#[derive(Debug, Clone, Serialize, Deserialize)]
pub struct Scenario {
    /// (name, content to store, or None to leave the tag listening)
    pub tags: Vec<(String, Option<String>)>,
    pub line: String,
    pub crlf: bool,
}

#[derive(Debug, Clone, Serialize, Deserialize)]
pub enum Case {
    Driver(Scenario),
    File(c01::Case),
}

/// observable behaviour of one run of the scenario
#[derive(Debug, Clone, PartialEq, Eq)]
struct Obs {
    creates: Vec<bool>,
    stores: Vec<bool>,
    injected1: String,
    has1: bool,
    injected2: String,
    has2: bool,
}

fn run_impl(s: &Scenario) -> Obs {
    let le = if s.crlf { "\r\n" } else { "\n" };
    let mut t = TagState::new();
    let mut creates = vec![];
    let mut stores = vec![];
    for (name, content) in &s.tags {
        creates.push(t.create(name).is_ok());
        if let Some(c) = content {
            stores.push(t.try_store(c).is_ok());
        }
    }
    let injected1 = t.inject_tags(&s.line, le);
    let has1 = t.has_tags();
    let injected2 = t.inject_tags(&s.line, le);
    let has2 = t.has_tags();
    Obs { creates, stores, injected1, has1, injected2, has2 }
}

fn run_model(s: &Scenario) -> Obs {
    let le = if s.crlf { "\r\n" } else { "\n" };
    let mut t = Tags::new();
    let mut creates = vec![];
    let mut stores = vec![];
    for (name, content) in &s.tags {
        creates.push(t.create(name).is_ok());
        if let Some(c) = content {
            stores.push(t.try_store(c));
        }
    }
    let injected1 = t.inject(&s.line, le);
    let has1 = t.has_tags();
    let injected2 = t.inject(&s.line, le);
    let has2 = t.has_tags();
    Obs { creates, stores, injected1, has1, injected2, has2 }
}

pub fn check_scenario(s: &Scenario) -> Check {
    let want = run_model(s);
    let first = match std::panic::catch_unwind(|| run_impl(s)) {
        Ok(o) => o,
        Err(_) => return viol("C14 panic", format!("scenario {s:?}: the tag store panicked (documented result {want:?})")),
    };
    for _ in 0..3 {
        let Ok(again) = std::panic::catch_unwind(|| run_impl(s)) else {
            return viol("C14 panic", format!("scenario {s:?}: the tag store panicked on a fresh store"));
        };
        if again != first {
            return viol(
                "C14 nondeterministic",
                format!("scenario {s:?} gives different results on fresh stores:\n  {first:?}\n  {again:?}"),
            );
        }
    }
    if first != want {
        let sig = if first.creates != want.creates {
            "C14 create-verdict"
        } else if first.stores != want.stores {
            "C14 store-verdict"
        } else if first.injected1 != want.injected1 {
            "C14 injection"
        } else if first.has1 != want.has1 || first.has2 != want.has2 {
            "C14 tag-lifetime"
        } else {
            "C14 second-injection"
        };
        return viol(sig, format!("scenario {s:?}:\n  documented {want:?}\n  txtpp      {first:?}"));
    }
    Ok(())
}

fn names(max_len: usize) -> Vec<String> {
    let mut v: Vec<String> = vec![];
    let mut cur: Vec<String> = vec![String::new()];
    for _ in 0..max_len {
        let mut next = vec![];
        for c in &cur {
            for ch in ['a', 'b'] {
                let s = format!("{c}{ch}");
                v.push(s.clone());
                next.push(s);
            }
        }
        cur = next;
    }
    v
}

fn lines(max_len: usize) -> Vec<String> {
    let mut v: Vec<String> = vec![String::new()];
    let mut cur: Vec<String> = vec![String::new()];
    for _ in 0..max_len {
        let mut next = vec![];
        for c in &cur {
            for ch in ['a', 'b', 'x'] {
                let s = format!("{c}{ch}");
                v.push(s.clone());
                next.push(s);
            }
        }
        cur = next;
    }
    v
}

const CONTENTS: &[&str] = &["1", "ab", "p\nq\r\n"];
const CONTENTS_T: &[&str] = &["1", "ab", "p\nq\r\n", "", "ba\n"];

fn minimise(s: &Scenario) -> Scenario {
    let mut cur = s.clone();
    loop {
        let mut cands: Vec<Scenario> = vec![];
        for i in 0..cur.tags.len() {
            let mut c = cur.clone();
            c.tags.remove(i);
            cands.push(c);
        }
        for i in 0..cur.line.len() {
            let mut c = cur.clone();
            c.line.remove(i);
            cands.push(c);
        }
        for i in 0..cur.tags.len() {
            if let Some(content) = &cur.tags[i].1 {
                if content != "1" {
                    let mut c = cur.clone();
                    c.tags[i].1 = Some("1".into());
                    cands.push(c);
                }
            }
        }
        match cands.into_iter().find(|c| check_scenario(c).is_err()) {
            Some(c) => cur = c,
            None => return cur,
        }
    }
}

fn gen_file_case(c: &mut Choices) -> c01::Case {
    let p = GenParams {
        max_sources: 2,
        max_items: 12,
        error_rate: 25,
        tag_boost: true,
        ..GenParams::default()
    };
    let project = gen_project(c, &p);
    c01::Case {
        golden: None,
        project,
        opts: RunOpts {
            mode: ModeS::Build,
            trailing_newline: !c.chance(1, 4),
            threads: 1 + c.below(3),
            recursive: true,
            inputs: vec![".".into()],
            shell: String::new(),
        },
    }
}

fn check_file(case: &c01::Case, st: &mut Stats) -> Check {
    // model comparison (both directions) ...
    let mut tmp = Stats::default();
    c01::check(case, &mut tmp).map_err(|(m, s)| (m, s.replace("C01", "C14 file")))?;
    for (k, v) in &tmp.excluded {
        *st.excluded.entry(k.clone()).or_insert(0) += v;
    }
    let tagged = tmp.classes.contains_key("tag_inject")
        || tmp.classes.keys().any(|k| k.starts_with("expected_error:Tag"));
    for (k, v) in tmp.classes {
        if k.starts_with("tag") || k.starts_with("expected_error:Tag") {
            *st.classes.entry(format!("file:{k}")).or_insert(0) += v;
        }
    }
    if tagged {
        st.nontrivial_hash(&serde_json::to_string(case).unwrap());
        // ... and determinism: a second build gives the same verdict and bytes
        let mut tmp2 = Stats::default();
        c01::check(case, &mut tmp2).map_err(|(m, _)| (format!("second build differs: {m}"), "C14 file nondeterministic".to_string()))?;
    }
    st.sample(|| serde_json::json!({"file_case": case}), 2);
    Ok(())
}

impl Prop for C14 {
    fn meta(&self) -> PropMeta {
        PropMeta {
            id: "C14",
            level: "exploration",
            rule: "(a) bounded-exhaustive driver: every ordered sequence of <=3 tag creations with names over {a,b} of length <=2 (thorough: <=3 for sequences of <=2) — so equal, prefix-related and overlapping names all occur — each stored with a content from {plain, a text containing another tag name, mixed LF/CRLF with trailing newline} or (last tag only) left listening, x every target line over {a,b,x} up to length 6 (thorough 7), LF and CRLF: create verdicts, store verdicts, injected string, has_tags, and a second injection of the same line are compared with a list-based model; each scenario runs on 4 fresh stores and must agree with itself (hash-order independence). (b) generated tag-heavy whole files (create/store/use orders, no-output directives between create and store, tags on tail lines, all documented error orders) compared with the reference model and built twice. Non-trivial: (a) >=2 stored tags and >=1 occurrence in the line, distinct by construction; (b) file with an injection or a tag error, distinct by hash.",
            assumptions: vec!["TagState is reached through the add-only `verif` re-export"],
            hang_is_violation: false,
            needs_cli: false,
        }
    }

    fn worker(&self, ctx: &mut WorkerCtx) {
        let quick = ctx.quick;
        let short = names(2);
        let long = names(3);
        let ls = lines(if quick { 6 } else { 7 });
        let contents: &[&str] = if quick { CONTENTS } else { CONTENTS_T };
        // tag sequences
        let mut seqs: Vec<Vec<String>> = vec![vec![]];
        for a in &long {
            seqs.push(vec![a.clone()]);
        }
        let pair_names = if quick { &short } else { &long };
        for a in pair_names {
            for b in pair_names {
                seqs.push(vec![a.clone(), b.clone()]);
            }
        }
        for a in &short {
            for b in &short {
                for c in &short {
                    seqs.push(vec![a.clone(), b.clone(), c.clone()]);
                }
            }
        }
        let mut first_fail: Option<Scenario> = None;
        let mut idx = 0u64;
        let mut scen = 0u64;
        for (si, seq) in seqs.iter().enumerate() {
            if si % ctx.nshards != ctx.shard {
                continue;
            }
            let k = seq.len();
            // content assignments: contents^k, and the variant "last tag left listening"
            let n_assign = contents.len().pow(k as u32);
            for a in 0..n_assign {
                for listening_last in [false, true] {
                    if listening_last && k == 0 {
                        continue;
                    }
                    let mut tags = vec![];
                    let mut x = a;
                    for (i, name) in seq.iter().enumerate() {
                        let c = contents[x % contents.len()];
                        x /= contents.len();
                        let content = if listening_last && i + 1 == k { None } else { Some(c.to_string()) };
                        tags.push((name.clone(), content));
                    }
                    if listening_last && a >= n_assign / contents.len() {
                        continue; // the last content is unused: avoid duplicates
                    }
                    scen += 1;
                    for crlf in [false, true] {
                        // CRLF only matters when a content has a newline
                        if crlf && !tags.iter().any(|t| t.1.as_deref().map(|c| c.contains('\n')).unwrap_or(false)) {
                            continue;
                        }
                        crate::wctx::beat();
                        for line in &ls {
                            idx += 1;
                            let s = Scenario { tags: tags.clone(), line: line.clone(), crlf };
                            ctx.stats.evaluations += 1;
                            let stored: Vec<&String> = tags.iter().filter(|t| t.1.is_some()).map(|t| &t.0).collect();
                            if stored.len() >= 2 && stored.iter().any(|n| line.contains(n.as_str())) {
                                ctx.stats.nontrivial_counted += 1;
                            }
                            if first_fail.is_none() && check_scenario(&s).is_err() {
                                first_fail = Some(s.clone());
                            }
                            if (idx == 5_000 || idx % 2_000_003 == 1_000_000) && ctx.stats.samples.len() < 3 {
                                ctx.stats.samples.push(serde_json::json!({"scenario": s, "observed": format!("{:?}", run_impl(&s))}));
                            }
                        }
                    }
                }
            }
            if si % 64 == 0 {
                ctx.heartbeat();
            }
        }
        ctx.stats.exhaustive.insert("tag_scenarios_x_lines".into(), idx);
        ctx.stats.count("driver_scenarios", scen);
        if let Some(f) = first_fail {
            let m = minimise(&f);
            let (msg, sig) = check_scenario(&m).err().unwrap();
            ctx.stats.violations.push(Violation { message: msg, signature: sig, case: serde_json::to_value(Case::Driver(m)).unwrap() });
            return;
        }
        // whole files
        let total = if quick { 12_000 } else { 200_000 };
        let n = ctx.share(total);
        let gen = |c: &mut Choices| Case::File(gen_file_case(c));
        let chk = |c: &Case, st: &mut Stats| -> Check {
            match c {
                Case::File(f) => check_file(f, st),
                Case::Driver(s) => check_scenario(s),
            }
        };
        let red = |c: &Case| -> Vec<Case> {
            match c {
                Case::File(f) => super::reduce_project(&f.project)
                    .into_iter()
                    .map(|p| Case::File(c01::Case { project: p, opts: f.opts.clone(), golden: None }))
                    .collect(),
                _ => vec![],
            }
        };
        ctx.drive(2, n, 500, &gen, &chk, &red);
    }

    fn replay(&self, case: &Value) -> Check {
        let case: Case = serde_json::from_value(case.clone()).map_err(|e| (format!("bad case: {e}"), "bad-case".to_string()))?;
        match case {
            Case::Driver(s) => check_scenario(&s),
            Case::File(f) => check_file(&f, &mut Stats::default()),
        }
    }
}
