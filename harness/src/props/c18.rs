//! C18 — no input or configuration makes txtpp panic or hang.
//! Grammar-aware and byte-level generated inputs, all modes, 0..16 threads. The process confines
//! itself with Landlock first, because directive arguments (paths) are arbitrary here.

use super::{viol, Check, Prop, PropMeta};
use crate::child;
use crate::confine;
use crate::fsx::{self, Scratch};
use crate::gen::project::FileData;
use crate::gen::Choices;
use crate::runner::{self, ModeS, RunOpts};
use crate::wctx::{Stats, WorkerCtx};
use serde::{Deserialize, Serialize};
use serde_json::Value;
use std::collections::BTreeMap;
use std::sync::atomic::{AtomicU8, Ordering};
use std::time::Duration;

pub struct C18;

#[derive(Debug, Clone, Serialize, Deserialize)]
pub struct Case {
    pub files: BTreeMap<String, FileData>,
    pub dirs: Vec<String>,
    pub opts: RunOpts,
    #[serde(default)]
    pub cli: bool,
}

/// 0 = not tried, 1 = confined, 2 = unavailable
static CONFINED: AtomicU8 = AtomicU8::new(0);

pub fn ensure_confined(extra_rw: &[&std::path::Path]) -> bool {
    match CONFINED.load(Ordering::SeqCst) {
        1 => return true,
        2 => return false,
        _ => {}
    }
    let base = fsx::scratch_base();
    let _ = std::fs::create_dir_all(&base);
    let mut rw: Vec<&std::path::Path> = vec![base.as_path()];
    rw.extend_from_slice(extra_rw);
    let ok = confine::confine(&rw).is_ok();
    CONFINED.store(if ok { 1 } else { 2 }, Ordering::SeqCst);
    ok
}

const NAMES: &[&str] = &["", "include", "after", "run", "temp", "tag", "write", "runx", "Include", "temp\t", " "];
const PREFIXES: &[&str] = &["", "-", "//", "// ", "# ", "é", "語 ", "\u{a0}", "-\t", "TXTPP", "- -", "/*"];
const INDENTS: &[&str] = &["", " ", "  ", "\t", "\u{a0}", "\u{3000} ", " \t "];
const ARGS: &[&str] = &[
    "", "x", "a.txt", "sub/a.txt", "./a.txt", "src.txt", "src.txt.txtpp", "b.txt", "b.txt.txtpp", "t.tmp", "t.txtpp", "sub", "sub/", ".", "missing.txt", "é", "a b", "\u{a0}", "T", "TT", "AB", "BC", "ABC",
    "TXTPP#", "TXTPP#run x", "-TXTPP#temp a.txt", "echo hi", "%s %d %n", "\\", "'", "\"", "$(x)", "`x`", "a\tb", "  lead", "trail  ",
];
const RISKY_ARGS: &[&str] = &["/", "..", "../x.tmp", "../../y", "/dev/null", "/dev/zero", "/dev/full", "/etc/passwd", "/proc/self/mem", "/tmp/vfy-c18-escape", "sub/../../z"];
const TEXT: &[&str] = &["hello", "T", "AB", "BC", "ABC", "TT", "TXTPP#", "é", "\u{a0}", "\0", "\r", " ", "\t", "x", "語", "\u{feff}", "BCAB", "ABCBC"];
const TERMS: &[&str] = &["\n", "\n", "\n", "\r\n", "\r", "", "\n\n", "\r\r\n"];
const SHELLS: &[&str] = &["echo", "printf %s", "true", "false", "cat", "no-such-shell-xyz", "echo  -n", "printf %s\\n"];
const INPUTS: &[&str] = &[".", "src.txt", "src.txt.txtpp", "", "missing", "sub", "a.txt", "./", ".//src.txt", "b.txt", "sub/c", "sub/c.txtpp", "src.txt/", "t.tmp"];
const THREADS: &[usize] = &[1, 2, 1, 3, 4, 8, 9, 16, 0];

fn arg(c: &mut Choices, risky: bool) -> String {
    if risky && c.chance(1, 8) {
        return c.pick(RISKY_ARGS).to_string();
    }
    if c.chance(1, 60) {
        return "y".repeat(3000 + c.below(9000));
    }
    if c.chance(1, 90) {
        // more than a pipe buffer (64 KiB) of command output when the shell echoes / prints it
        return "z".repeat(66_000 + c.below(40_000));
    }
    c.pick(ARGS).to_string()
}

fn gen_text(c: &mut Choices, risky: bool) -> Vec<u8> {
    let n = c.below(14);
    let mut s = String::new();
    // (indent, prefix) of the last directive, to build plausible continuations
    let mut last: Option<(String, String)> = None;
    for _ in 0..n {
        match c.weighted(&[4, 7, 5]) {
            0 => {
                let k = 1 + c.below(3);
                for _ in 0..k {
                    s.push_str(*c.pick(TEXT));
                }
            }
            1 => {
                let ind = c.pick(INDENTS).to_string();
                let pre = c.pick(PREFIXES).to_string();
                let name = *c.pick(NAMES);
                s.push_str(&format!("{ind}{pre}TXTPP#{name}"));
                if c.chance(4, 5) {
                    s.push(' ');
                    s.push_str(&arg(c, risky));
                }
                last = Some((ind, pre));
            }
            _ => {
                // continuation-like line
                let (ind, pre) = last.clone().unwrap_or_default();
                let lead = match c.below(6) {
                    0 => pre.clone(),
                    1 => " ".repeat(pre.len()),
                    2 => " ".repeat(pre.chars().count()),
                    3 => pre.trim_end().to_string(),
                    4 => " ".repeat(pre.len().saturating_sub(1)),
                    _ => {
                        let mut p = pre.clone();
                        p.pop();
                        p
                    }
                };
                s.push_str(&format!("{ind}{lead}{}", arg(c, risky)));
            }
        }
        s.push_str(*c.pick(TERMS));
    }
    let mut b = s.into_bytes();
    if c.chance(1, 6) {
        // damage some bytes
        let k = 1 + c.below(4);
        for _ in 0..k {
            if b.is_empty() {
                b.push(0xff);
            } else {
                let i = c.below(b.len());
                b[i] = *c.pick(&[0xffu8, 0xc3, 0x80, 0x00, b'\r', b'\n', 0xe8]);
            }
        }
    }
    b
}

fn gen_bytes(c: &mut Choices) -> Vec<u8> {
    let n = c.below(40);
    let mut b = vec![];
    for _ in 0..n {
        match c.below(6) {
            0 => b.extend_from_slice(b"TXTPP#"),
            1 => b.extend_from_slice(c.pick(NAMES).as_bytes()),
            2 => b.push(*c.pick(&[b'\n', b'\r', b' ', b'\t', 0, 0xff, 0xc3, 0xa9, b'-', b'/'])),
            3 => b.extend_from_slice(c.pick(ARGS).as_bytes()),
            _ => b.push((c.raw() & 0xff) as u8),
        }
    }
    b
}

/// (c) a well-formed generated project (tag-heavy, all directives), lightly damaged
fn gen_mutated_project(c: &mut Choices) -> Case {
    use crate::gen::project::{gen_project, GenParams};
    let p = GenParams {
        max_sources: 3,
        max_items: 10,
        error_rate: 40,
        tag_boost: c.chance(1, 2),
        abs_paths: false,
        ..GenParams::default()
    };
    let project = gen_project(c, &p);
    let mut files: BTreeMap<String, FileData> = project.files.clone();
    let keys: Vec<String> = files.keys().cloned().collect();
    let n_mut = c.below(4);
    for _ in 0..n_mut {
        if keys.is_empty() {
            break;
        }
        let k = &keys[c.below(keys.len())];
        let mut b = files[k].bytes().to_vec();
        let lines: Vec<Vec<u8>> = b.split_inclusive(|x| *x == b'\n').map(|l| l.to_vec()).collect();
        match c.below(6) {
            0 if !lines.is_empty() => {
                let i = c.below(lines.len());
                b = lines.iter().enumerate().filter(|(j, _)| *j != i).flat_map(|(_, l)| l.clone()).collect();
            }
            1 if !lines.is_empty() => {
                let i = c.below(lines.len());
                let mut v = lines.clone();
                v.insert(i, lines[c.below(lines.len())].clone());
                b = v.concat();
            }
            2 if lines.len() > 1 => {
                let mut v = lines.clone();
                let i = c.below(v.len());
                let j = c.below(v.len());
                v.swap(i, j);
                b = v.concat();
            }
            3 if !b.is_empty() => {
                let i = c.below(b.len());
                b[i] = *c.pick(&[0xffu8, b'\r', 0, b' ', b'\n', b'#', 0xc3]);
            }
            4 => {
                let i = c.below(b.len() + 1);
                let tok = c.pick(&["TXTPP#", "TXTPP#tag AB\n", "TXTPP#tag BC\n", "ABC", "-TXTPP#write x\n", "\r", "TXTPP#include src.txt\n", "-TXTPP#temp t.tmp\n"]);
                b.splice(i..i, tok.bytes());
            }
            _ => {
                if !b.is_empty() {
                    b.truncate(c.below(b.len()));
                }
            }
        }
        files.insert(k.clone(), FileData::from_bytes(b));
    }
    if !files.contains_key("src.txt.txtpp") {
        files.insert("src.txt.txtpp".into(), FileData::Text("plain\n".into()));
    }
    Case {
        files,
        dirs: project.dirs.iter().cloned().collect(),
        opts: RunOpts {
            mode: *c.pick(&[ModeS::Build, ModeS::Build, ModeS::Needed, ModeS::Verify, ModeS::Clean]),
            trailing_newline: c.chance(1, 2),
            threads: *c.pick(THREADS),
            recursive: true,
            inputs: vec![".".into()],
            shell: c.pick(&["echo", "printf %s", "true", "cat"]).to_string(),
        },
        cli: false,
    }
}

fn gen_case_with(c: &mut Choices, risky: bool) -> Case {
    if c.chance(2, 5) {
        return gen_mutated_project(c);
    }
    let bytes_mode = c.chance(1, 4);
    let g = |c: &mut Choices| if bytes_mode { gen_bytes(c) } else { gen_text(c, risky) };
    let mut files = BTreeMap::new();
    files.insert("src.txt.txtpp".to_string(), FileData::from_bytes(g(c)));
    if c.chance(1, 2) {
        files.insert("b.txt.txtpp".to_string(), FileData::from_bytes(g(c)));
    }
    if c.chance(1, 3) {
        files.insert("sub/c.txtpp".to_string(), FileData::from_bytes(g(c)));
    }
    if c.chance(1, 2) {
        files.insert("a.txt".to_string(), FileData::from_bytes(g(c)));
    }
    if c.chance(1, 4) {
        files.insert("sub/a.txt".to_string(), FileData::from_bytes(g(c)));
    }
    if c.chance(1, 12) {
        files.insert("b.txt".to_string(), FileData::Text("0123456789abcdef\n".repeat(4200 + c.below(3000))));
    }
    // pre-existing generated files
    if c.chance(1, 3) {
        files.insert("src.txt".to_string(), FileData::from_bytes(g(c)));
    }
    if c.chance(1, 4) {
        files.insert("t.tmp".to_string(), FileData::from_bytes(g(c)));
    }
    let n_in = 1 + c.below(3);
    let inputs = (0..n_in).map(|_| c.pick(INPUTS).to_string()).collect();
    Case {
        files,
        dirs: if c.chance(1, 2) { vec!["sub".into()] } else { vec![] },
        opts: RunOpts {
            mode: *c.pick(&[ModeS::Build, ModeS::Build, ModeS::Needed, ModeS::Verify, ModeS::Clean]),
            trailing_newline: c.chance(1, 2),
            threads: *c.pick(THREADS),
            recursive: c.chance(1, 2),
            inputs,
            shell: c.pick(SHELLS).to_string(),
        },
        cli: false,
    }
}

fn panic_site(panics: &[String]) -> String {
    for p in panics {
        if let Some(i) = p.find("panicked at ") {
            let rest = &p[i + 12..];
            let site: String = rest.chars().take_while(|c| !c.is_whitespace() && *c != ',').collect();
            // strip the column and registry version noise
            let mut site = site.trim_end_matches(':').to_string();
            if let Some(i) = site.find("/registry/src/") {
                // <registry>/<index>/<crate-version>/src/x.rs -> <crate-version>/src/x.rs
                let rest = &site[i + 14..];
                site = rest.splitn(2, '/').nth(1).unwrap_or(rest).to_string();
            }
            let mut parts: Vec<&str> = site.rsplitn(3, ':').collect();
            parts.reverse();
            return parts.first().map(|f| format!("{}:{}", f, parts.get(1).unwrap_or(&""))).unwrap_or(site);
        }
    }
    "unknown".into()
}

pub fn check(case: &Case, st: &mut Stats) -> Check {
    let confined = CONFINED.load(Ordering::SeqCst) == 1;
    let sc = Scratch::new();
    let tree: BTreeMap<String, Vec<u8>> = case.files.iter().map(|(k, v)| (k.clone(), v.bytes().to_vec())).collect();
    let dirs: std::collections::BTreeSet<String> = case.dirs.iter().cloned().collect();
    fsx::write_tree(&sc.root, &tree, &dirs);
    let src = tree.get("src.txt.txtpp").cloned().unwrap_or_default();
    let has_directive = src.windows(6).any(|w| w == b"TXTPP#");
    let odd_bytes = std::str::from_utf8(&src).is_err() || src.contains(&0) || src.windows(2).any(|w| w[0] == b'\r' && w[1] != b'\n');
    if has_directive || odd_bytes || case.opts.threads == 0 || case.opts.threads > 8 {
        st.nontrivial_hash(&serde_json::to_string(case).unwrap());
    }
    st.class(&format!("mode:{:?}", case.opts.mode));
    st.class(&format!("threads:{}", case.opts.threads));
    if odd_bytes {
        st.class("non_text_source");
    }
    st.sample(|| serde_json::json!({"case": case, "confined_by_landlock": confined}), 3);
    if case.cli {
        let ex = child::run_cli(&sc.root, &child::cli_args(&case.opts), &[], None, Duration::from_secs(60));
        if ex.timed_out {
            return viol("C18 cli-hang", "the txtpp binary did not exit within 60 s".into());
        }
        return match ex.code {
            Some(0) | Some(1) | Some(2) => Ok(()),
            Some(101) => viol(
                &format!("C18 cli-panic {}", panic_site(&[ex.stderr.clone()])),
                format!("the txtpp binary panicked (exit status 101): {}", ex.stderr.chars().take(400).collect::<String>()),
            ),
            other => viol("C18 cli-abort", format!("the txtpp binary ended abnormally: status {other:?} signal {:?}", ex.signal)),
        };
    }
    let out = runner::run_free(&sc.root, &case.opts);
    if out.unwound || !out.panics.is_empty() {
        let site = panic_site(&out.panics);
        return viol(
            &format!("C18 panic {site}"),
            format!(
                "{} (mode {:?}, {} threads, shell {:?}, inputs {:?}): {}",
                if out.unwound { "Txtpp::run panicked" } else { "a worker thread panicked" },
                case.opts.mode,
                case.opts.threads,
                case.opts.shell,
                case.opts.inputs,
                out.panics.join(" | ").chars().take(500).collect::<String>()
            ),
        );
    }
    if out.report.deadlock {
        return viol(
            "C18 hang",
            format!("logical deadlock: the coordinator keeps waiting although no task is outstanding (mode {:?}, {} threads)", case.opts.mode, case.opts.threads),
        );
    }
    Ok(())
}

fn reduce(case: &Case) -> Vec<Case> {
    let mut v = vec![];
    for k in case.files.keys() {
        if k != "src.txt.txtpp" {
            let mut c = case.clone();
            c.files.remove(k);
            v.push(c);
        }
    }
    for (k, f) in &case.files {
        let b = f.bytes();
        if b.len() > 2000 {
            continue;
        }
        // drop a line
        let lines: Vec<&[u8]> = b.split_inclusive(|x| *x == b'\n').collect();
        if lines.len() > 1 && lines.len() < 40 {
            for i in 0..lines.len() {
                let nb: Vec<u8> = lines.iter().enumerate().filter(|(j, _)| *j != i).flat_map(|(_, l)| l.iter().copied()).collect();
                let mut c = case.clone();
                c.files.insert(k.clone(), FileData::from_bytes(nb));
                v.push(c);
            }
        }
        // drop a byte (short files only)
        if b.len() <= 60 {
            for i in 0..b.len() {
                let mut nb = b.to_vec();
                nb.remove(i);
                let mut c = case.clone();
                c.files.insert(k.clone(), FileData::from_bytes(nb));
                v.push(c);
            }
        }
    }
    if case.opts.inputs.len() > 1 {
        let mut c = case.clone();
        c.opts.inputs.truncate(1);
        v.push(c);
    }
    if case.opts.threads > 1 {
        let mut c = case.clone();
        c.opts.threads = 1;
        v.push(c);
    }
    if case.opts.mode != ModeS::Build {
        let mut c = case.clone();
        c.opts.mode = ModeS::Build;
        v.push(c);
    }
    v
}

impl Prop for C18 {
    fn meta(&self) -> PropMeta {
        PropMeta {
            id: "C18",
            level: "exploration",
            rule: "cases = 1-3 sources, include targets and pre-existing output / temp files with generated content x mode {build, needed, verify, clean} x threads {0,1,2,3,4,8,9,16} x recursive x trailing option x input lists (directories, names, missing, empty string) x configured shell from {echo, printf %s, true, false, cat, a missing program} (never a real shell: the command text is arbitrary). Content generators: (a) grammar-aware: directive lines with arbitrary indent (incl. U+00A0, U+3000), prefix (incl. non-ASCII, TXTPP, trailing tab), name (valid, near-miss, with tab) and arguments (paths incl. /, .., /dev/zero, /etc/passwd, own source/output, overlapping tag names, 3-12 KB lines, quotes, %-formats), continuation-like lines with right, short, byte- and char-length space runs and truncated prefixes, line terminators LF / CRLF / lone CR / none / CR CR LF, NUL, BOM, then 0-4 damaged bytes; (b) byte-level: random bytes biased towards TXTPP#, names and separators. Thorough: additionally the txtpp binary on a sample, and a coverage-guided libFuzzer campaign on the same decoder. Oracle: Txtpp::run returns Ok or Err; no panic on any thread (global panic hook + task guards), no abort (worker process death is attributed through the journal and re-run alone), no logical deadlock (idle poll with no task outstanding). Non-trivial = source contains TXTPP#, or is not text (invalid UTF-8 / NUL / lone CR), or threads in {0, 9, 16}; distinct by hash.",
            assumptions: vec![
                "the worker confines itself with Landlock (read/execute system directories, read/write only its scratch directory, /dev/null); if Landlock is unavailable the risky absolute / parent paths are not generated and the evidence says so",
                "a loop inside a task is only caught by the 60 s isolated double replay",
            ],
            hang_is_violation: true,
            needs_cli: true,
        }
    }
    fn worker(&self, ctx: &mut WorkerCtx) {
        let out_dir = ctx.out.parent().map(|p| p.to_path_buf()).unwrap_or_default();
        let confined = ensure_confined(&[out_dir.as_path()]);
        ctx.stats.count(if confined { "confined_by_landlock" } else { "landlock_unavailable_risky_paths_not_generated" }, 1);
        let total = if ctx.quick { 160_000 } else { 2_000_000 };
        let n = ctx.share(total);
        let gen = move |c: &mut Choices| gen_case_with(c, confined);
        ctx.drive(1, n, 400, &gen, &check, &reduce);
        if !ctx.quick && ctx.stats.violations.is_empty() {
            let n = ctx.share(600);
            let gen = move |c: &mut Choices| {
                let mut k = gen_case_with(c, confined);
                k.cli = true;
                k
            };
            ctx.drive(2, n, 400, &gen, &check, &reduce);
        }
    }
    fn replay(&self, case: &Value) -> Check {
        let case: Case = serde_json::from_value(case.clone()).map_err(|e| (format!("bad case: {e}"), "bad-case".to_string()))?;
        ensure_confined(&[]);
        check(&case, &mut Stats::default())
    }
}

/// entry for the libFuzzer target: decode bytes into a case and check it (panics on violation)
pub fn fuzz_one(data: &[u8]) -> Result<(), String> {
    let words: Vec<u16> = data.chunks(2).map(|c| u16::from_le_bytes([c[0], *c.get(1).unwrap_or(&0)])).collect();
    let mut c = Choices::new(&words);
    let confined = CONFINED.load(Ordering::SeqCst) == 1;
    let case = gen_case_with(&mut c, confined);
    match check(&case, &mut Stats::default()) {
        Ok(()) => Ok(()),
        Err((m, s)) => Err(format!("{s}: {m}\nCASE {}", serde_json::to_string(&case).unwrap_or_default())),
    }
}
