//! C10 — txtpp only ever writes its own outputs and temp targets.
//! Whole-tree snapshot diff (bytes, inode, mtime) against the set of paths the run may touch.

use super::common::materialise;
use super::{reduce_project, viol, Check, Prop, PropMeta};
use crate::fsx::{self, Change};
use crate::gen::project::{gen_project, GenParams, Project};
use crate::gen::Choices;
use crate::model::{names, InputRes, Model, Verdict};
use crate::runner::{self, ModeS, RunOpts};
use crate::wctx::{Stats, WorkerCtx};
use serde::{Deserialize, Serialize};
use serde_json::Value;
use std::collections::BTreeSet;

pub struct C10;

#[derive(Debug, Clone, Serialize, Deserialize)]
pub struct Case {
    pub project: Project,
    /// build everything first (so that verify / clean / needed meet existing files)
    pub prebuild: bool,
    pub opts: RunOpts,
    /// after a successful prebuild, one processed source gets a failing command appended: the
    /// run under test then fails at a directive while correct older outputs are lying around
    #[serde(default)]
    pub break_after_prebuild: bool,
}

fn gen_case(c: &mut Choices) -> Case {
    let p = GenParams {
        error_rate: 25,
        max_sources: 4,
        max_items: 7,
        decoys: true,
        ..GenParams::default()
    };
    let project = gen_project(c, &p);
    let (inputs, recursive) = if c.chance(1, 2) {
        (vec![".".to_string()], c.chance(1, 2))
    } else {
        let (mut i, r) = super::c01::gen_inputs(c, &project);
        if c.chance(1, 5) {
            i.push("sub".into());
        }
        (i, r)
    };
    let mode = *c.pick(&[ModeS::Build, ModeS::Needed, ModeS::Verify, ModeS::Clean]);
    Case {
        project,
        prebuild: c.chance(1, 2),
        break_after_prebuild: c.chance(1, 3),
        opts: RunOpts {
            mode,
            trailing_newline: !c.chance(1, 5),
            threads: 1 + c.below(4),
            recursive,
            inputs,
            shell: String::new(),
        },
    }
}

pub fn check(case: &Case, st: &mut Stats) -> Check {
    let su = materialise(&case.project);
    let cfg = su.cfg(case.opts.trailing_newline);
    let mut model = Model::new(&su.tree, &case.project.dirs, &cfg);
    let ex = model.build(&case.opts.inputs, case.opts.recursive);
    if let Verdict::Excluded(r) = &ex.verdict {
        st.exclude(r);
        return Ok(());
    }
    // sources the run may process
    let may: BTreeSet<String> = match case.opts.mode {
        ModeS::Clean => match model.resolve_inputs(&case.opts.inputs, case.opts.recursive) {
            InputRes::Sources(s) => s,
            _ => BTreeSet::new(),
        },
        _ => ex.may_process.clone(),
    };
    let mut allowed: BTreeSet<String> = BTreeSet::new();
    let mut outputs: BTreeSet<String> = BTreeSet::new();
    for s in &may {
        let o = names::output_of(s).unwrap();
        outputs.insert(o.clone());
        allowed.insert(o);
        for t in model.syntactic_temps(s) {
            allowed.insert(t);
        }
    }
    su.write(&case.project);
    if case.prebuild {
        let mut b = case.opts.clone();
        b.mode = ModeS::Build;
        b.inputs = vec![".".into()];
        b.recursive = true;
        let pre = runner::run_free(&su.sc.root, &b);
        if pre.ok && case.break_after_prebuild {
            if let Some(s) = may.iter().next() {
                let p = su.sc.root.join(s);
                if let Ok(mut t) = std::fs::read(&p) {
                    if !t.is_empty() && !t.ends_with(b"\n") {
                        t.push(b'\n');
                    }
                    // a prefix no generated directive uses: the line cannot continue one
                    t.extend_from_slice(b"%%TXTPP#run exit 3\n");
                    let _ = std::fs::write(&p, t);
                    st.class("source_broken_after_successful_prebuild");
                }
            }
        }
    }
    fsx::stamp(&su.sc.root);
    let before = fsx::snapshot(&su.sc.root);
    let out = runner::run_free(&su.sc.root, &case.opts);
    let after = fsx::snapshot(&su.sc.root);
    let d = fsx::diff(&before, &after);
    let decoys = su.tree.keys().filter(|k| !names::source_shaped(k)).count();
    st.class(&format!("mode:{:?}/{}", case.opts.mode, if out.ok { "ok" } else { "err" }));
    if decoys >= 2 && !may.is_empty() {
        st.nontrivial_hash(&serde_json::to_string(case).unwrap());
    }
    st.sample(|| serde_json::json!({"case": case, "changed_paths": d.keys().collect::<Vec<_>>()}), 3);
    for (p, ch) in &d {
        if !allowed.contains(p) {
            let kind = if su.tree.contains_key(p) {
                if names::source_shaped(p) { "source" } else { "other-input-file" }
            } else {
                "unrelated-generated-path"
            };
            return viol(
                &format!("C10 touched-{kind} {ch:?}"),
                format!(
                    "mode {:?} inputs {:?}: {ch:?} {p}, which is neither an output nor a temp target of the processed sources {may:?}",
                    case.opts.mode, case.opts.inputs
                ),
            );
        }
        if case.opts.mode == ModeS::Verify && outputs.contains(p) {
            return viol("C10 verify-wrote-output", format!("verify {ch:?} the output {p}"));
        }
        if case.opts.mode == ModeS::Clean && matches!(ch, Change::Created) {
            return viol("C10 clean-created", format!("clean created {p}"));
        }
    }
    Ok(())
}

fn reduce(case: &Case) -> Vec<Case> {
    reduce_project(&case.project).into_iter().map(|p| Case { project: p, ..case.clone() }).collect()
}

impl Prop for C10 {
    fn meta(&self) -> PropMeta {
        PropMeta {
            id: "C10",
            level: "exploration",
            rule: "cases = generated projects (successful and failing, error rate raised) with decoy files next to sources, in subdirectories and at near-miss names (a.txt.bak, a.tx, txtpp, .txtpp, a.txtpp.b.c, atxtpp) x mode {build, needed, verify, clean} x input selection (whole tree, subsets by source or output name, extra directory) x recursive flag x pristine or pre-built tree, or pre-built and then one source broken by an appended failing command. Oracle: full-tree snapshot (bytes, inode, mtime pre-set to a sentinel) before and after; every created / deleted / modified / touched path must be an output or a temp target (syntactic scan) of a source the run may process (input resolution model; closed under dependencies except for clean); verify must not touch outputs; clean must create nothing; whatever the verdict. Non-trivial = >=2 non-source files present and >=1 source processed.",
            assumptions: vec!["the set of sources a run may process comes from the reference input-resolution model (C11 checks that model against the implementation)"],
            hang_is_violation: false,
            needs_cli: false,
        }
    }
    fn worker(&self, ctx: &mut WorkerCtx) {
        let total = if ctx.quick { 50_000 } else { 1_000_000 };
        let n = ctx.share(total);
        ctx.drive(1, n, 600, &gen_case, &check, &reduce);
    }
    fn replay(&self, case: &Value) -> Check {
        let case: Case = serde_json::from_value(case.clone()).map_err(|e| (format!("bad case: {e}"), "bad-case".to_string()))?;
        check(&case, &mut Stats::default())
    }
}
