//! C12 — generated files use one line ending: that of the source's first line.
//! Model-free validity predicate (byte scan); the model is used only to attribute temp files
//! to their source (syntactic scan) and to exclude out-of-domain inputs.

use super::common::{materialise, short_err};
use super::{reduce_project, viol, Check, Prop, PropMeta};
use crate::gen::project::{gen_project, GenParams, Project};
use crate::gen::Choices;
use crate::model::{names, text_problem, Model, Verdict};
use crate::runner::{self, ModeS, RunOpts};
use crate::wctx::{Stats, WorkerCtx};
use serde::{Deserialize, Serialize};
use serde_json::Value;

pub struct C12;

#[derive(Debug, Clone, Serialize, Deserialize)]
pub struct Case {
    pub project: Project,
    pub opts: RunOpts,
    /// build once, flip the line terminators of every generated file on disk, build again and
    /// scan the result of the second build
    #[serde(default)]
    pub over_flipped: bool,
}

fn gen_case(c: &mut Choices) -> Case {
    let p = GenParams {
        error_rate: 2,
        max_sources: 4,
        ..GenParams::default()
    };
    let project = gen_project(c, &p);
    let opts = RunOpts {
        mode: if c.chance(1, 4) { ModeS::Needed } else { ModeS::Build },
        trailing_newline: !c.chance(1, 4),
        threads: 1 + c.below(4),
        recursive: true,
        inputs: vec![".".into()],
        shell: String::new(),
    };
    let over_flipped = c.chance(1, 3);
    Case { project, opts, over_flipped }
}

/// the documented ending of a source: that of its first line, LF when it has no terminator
fn first_line_ending(src: &[u8]) -> &'static str {
    match src.iter().position(|b| *b == b'\n') {
        Some(i) if i > 0 && src[i - 1] == b'\r' => "\r\n",
        _ => "\n",
    }
}

fn scan(le: &str, bytes: &[u8]) -> Option<String> {
    for (i, b) in bytes.iter().enumerate() {
        if le == "\n" {
            if *b == b'\r' {
                return Some(format!("LF file contains a CR at byte {i}"));
            }
        } else {
            if *b == b'\n' && (i == 0 || bytes[i - 1] != b'\r') {
                return Some(format!("CRLF file contains a bare LF at byte {i}"));
            }
            if *b == b'\r' && bytes.get(i + 1) != Some(&b'\n') {
                return Some(format!("CRLF file contains a CR not followed by LF at byte {i}"));
            }
        }
    }
    None
}

pub fn check(case: &Case, st: &mut Stats) -> Check {
    let su = materialise(&case.project);
    // domain: CR occurs only immediately before LF, everywhere
    for (p, b) in &su.tree {
        if b.contains(&b'\r') && text_problem(b).is_some() {
            st.exclude(&format!("{p}: lone CR / not text in an input file"));
            return Ok(());
        }
    }
    let ex = su.expect(&case.project, &case.opts);
    match &ex.verdict {
        Verdict::Excluded(r) => {
            st.exclude(r);
            return Ok(());
        }
        Verdict::Err(..) => {
            st.class("expected_error_skipped");
            return Ok(());
        }
        Verdict::Ok => {}
    }
    su.write(&case.project);
    let mut out = runner::run_free(&su.sc.root, &case.opts);
    if out.ok && case.over_flipped {
        for (p, b) in su.generated() {
            let t = String::from_utf8_lossy(&b).to_string();
            let f = if t.contains("\r\n") { t.replace("\r\n", "\n") } else { t.replace('\n', "\r\n") };
            let _ = std::fs::write(su.sc.root.join(&p), f);
        }
        out = runner::run_free(&su.sc.root, &case.opts);
        st.class("rebuilt_over_files_with_other_line_endings");
    }
    if !out.ok {
        // C01's business
        st.class("build_failed_skipped");
        st.notes.push(format!("build failed where the model expects success: {}", short_err(&out.err)));
        return Ok(());
    }
    let cfg = su.cfg(case.opts.trailing_newline);
    let model = Model::new(&su.tree, &case.project.dirs, &cfg);
    let gen = su.generated();
    let mut mixed = ex.features.contains("crlf_mix_source") || ex.features.contains("le_normalised");
    let mut seen_lf = false;
    let mut seen_crlf = false;
    for src in &ex.processed {
        let le = first_line_ending(&su.tree[src]);
        if le == "\n" {
            seen_lf = true
        } else {
            seen_crlf = true
        }
        let mut mine = vec![names::output_of(src).unwrap()];
        mine.extend(model.syntactic_temps(src));
        for p in mine {
            let Some(b) = gen.get(&p) else { continue };
            if let Some(problem) = scan(le, b) {
                return viol(
                    &format!("C12 {}", if le == "\n" { "cr-in-lf-file" } else { "bare-lf-in-crlf-file" }),
                    format!(
                        "{p} (generated from {src}, whose first line ends with {le:?}): {problem}\n  content: {}",
                        super::show_bytes(b)
                    ),
                );
            }
        }
    }
    mixed |= seen_lf && seen_crlf;
    st.class(if mixed { "mixed_endings" } else { "uniform" });
    if mixed {
        st.nontrivial_hash(&serde_json::to_string(case).unwrap());
    }
    st.sample(|| serde_json::json!({"case": case}), 3);
    Ok(())
}

fn reduce(case: &Case) -> Vec<Case> {
    reduce_project(&case.project)
        .into_iter()
        .map(|p| Case { project: p, ..case.clone() })
        .collect()
}

impl Prop for C12 {
    fn meta(&self) -> PropMeta {
        PropMeta {
            id: "C12",
            level: "exploration",
            rule: "cases = generated projects with LF/CRLF chosen independently for the first source line, later lines, included files, printf output, temp bodies and tag contents (CR only before LF), built in Build or --needed mode; oracle = byte scan of every output and temp file: LF source => no CR byte, CRLF source => every LF preceded by CR and every CR followed by LF, where the mode is the ending of the source's first line. Non-trivial = at least two different endings meet (mixed source, directive output normalised, or LF and CRLF sources in one project); distinct by hash of tree + options.",
            assumptions: vec!["temp files are attributed to their source by a syntactic scan of temp directives (model grammar)"],
            hang_is_violation: false,
            needs_cli: false,
        }
    }
    fn worker(&self, ctx: &mut WorkerCtx) {
        let total = if ctx.quick { 40_000 } else { 1_000_000 };
        let n = ctx.share(total);
        ctx.drive(1, n, 600, &gen_case, &check, &reduce);
    }
    fn replay(&self, case: &Value) -> Check {
        let case: Case = serde_json::from_value(case.clone()).map_err(|e| (format!("bad case: {e}"), "bad-case".to_string()))?;
        check(&case, &mut Stats::default())
    }
}
