//! C08 — builds are a function of the sources only (hermetic, idempotent).
//! Metamorphic: the result from any pre-state of the generated paths equals the result from
//! the tree without generated files.

use super::common::{materialise, Bytes};
use super::{reduce_project, show_bytes, viol, Check, Prop, PropMeta};
use crate::gen::project::{gen_project, GenParams, Project};
use crate::gen::Choices;
use crate::model::Verdict;
use crate::runner::{self, ModeS, RunOpts};
use crate::wctx::{Stats, WorkerCtx};
use serde::{Deserialize, Serialize};
use serde_json::Value;
use std::collections::BTreeMap;

pub struct C08;

#[derive(Debug, Clone, PartialEq, Eq, Serialize, Deserialize)]
pub enum Pre {
    Absent,
    Correct,
    Stale,
    Empty,
    /// a prefix of the correct bytes, cut at position (pos*len)>>16 — may fall inside a
    /// multi-byte character
    Prefix(u16),
    Random(Vec<u8>),
    /// the correct bytes with one more line
    Longer,
    /// the correct text with the other line terminators (LF <-> CRLF)
    EolFlipped,
    /// the correct bytes with the final line ending removed (or added)
    FinalNewlineToggled,
    /// the correct bytes, same length, with one byte changed at position (pos*len)>>16 (a
    /// leftover that a comparison by length, by prefix or by whole blocks takes for up to date)
    ByteFlipped(u16),
}

#[derive(Debug, Clone, Serialize, Deserialize)]
pub struct Case {
    pub project: Project,
    pub opts: RunOpts,
    /// pre-state per generated path, assigned in sorted path order (cyclically)
    pub pre: Vec<Pre>,
    /// run a --needed build before the build under test
    pub needed_first: bool,
    /// exact leftover files (path -> bytes) instead of `pre`: the state a killed run left behind
    #[serde(default)]
    pub leftover: Option<BTreeMap<String, crate::gen::project::FileData>>,
}

fn gen_pre(c: &mut Choices) -> Pre {
    match c.weighted(&[2, 2, 3, 1, 4, 3, 1, 2, 2, 2]) {
        0 => Pre::Absent,
        1 => Pre::Correct,
        2 => Pre::Stale,
        3 => Pre::Empty,
        4 => Pre::Prefix(c.raw()),
        5 => {
            let n = 1 + c.below(6);
            Pre::Random((0..n).map(|_| *c.pick(&[0xffu8, 0xc3, b'a', b'\n', 0x80, 0xe8, b' ', 0x00])).collect())
        }
        6 => Pre::Longer,
        7 => Pre::EolFlipped,
        8 => Pre::FinalNewlineToggled,
        _ => Pre::ByteFlipped(if c.chance(1, 2) { u16::MAX } else { c.raw() }),
    }
}

fn gen_case(c: &mut Choices) -> Case {
    let p = GenParams {
        error_rate: 6,
        max_sources: 4,
        max_items: 7,
        ..GenParams::default()
    };
    let project = gen_project(c, &p);
    let n = 1 + c.below(6);
    let pre = (0..n).map(|_| gen_pre(c)).collect();
    Case {
        project,
        opts: RunOpts {
            mode: if c.chance(1, 3) { ModeS::Needed } else { ModeS::Build },
            trailing_newline: !c.chance(1, 5),
            threads: 1 + c.below(4),
            recursive: true,
            inputs: vec![".".into()],
            shell: String::new(),
        },
        pre,
        needed_first: c.chance(1, 6),
        leftover: None,
    }
}

fn apply_pre(pre: &Pre, correct: Option<&Vec<u8>>) -> Option<Vec<u8>> {
    let base: Vec<u8> = correct.cloned().unwrap_or_else(|| "généré\n".as_bytes().to_vec());
    match pre {
        Pre::Absent => None,
        Pre::Correct => correct.cloned(),
        Pre::Stale => Some(b"stale content from an earlier run\n".to_vec()),
        Pre::Empty => Some(vec![]),
        Pre::Prefix(pos) => {
            let k = ((*pos as usize) * (base.len() + 1)) >> 16;
            Some(base[..k.min(base.len())].to_vec())
        }
        Pre::Random(b) => Some(b.clone()),
        Pre::Longer => {
            let mut v = base;
            v.extend_from_slice(b"one more line\n");
            Some(v)
        }
        Pre::EolFlipped => {
            let t = String::from_utf8_lossy(&base).to_string();
            Some(if t.contains("\r\n") { t.replace("\r\n", "\n") } else { t.replace('\n', "\r\n") }.into_bytes())
        }
        Pre::ByteFlipped(pos) => {
            let mut v = base;
            if !v.is_empty() {
                let k = (((*pos as usize) * v.len()) >> 16).min(v.len() - 1);
                v[k] ^= 0x01;
            }
            Some(v)
        }
        Pre::FinalNewlineToggled => {
            let mut v = base;
            if v.ends_with(b"\r\n") {
                v.truncate(v.len() - 2);
            } else if v.ends_with(b"\n") {
                v.pop();
            } else {
                v.push(b'\n');
            }
            Some(v)
        }
    }
}

pub fn check(case: &Case, st: &mut Stats) -> Check {
    let su = materialise(&case.project);
    if case.leftover.is_none() {
        // (leftover cases come from real killed runs of projects with slowed-down commands,
        // which the model's command vocabulary does not cover; the oracle below is model-free)
        let ex = su.expect(&case.project, &case.opts);
        if let Verdict::Excluded(r) = &ex.verdict {
            st.exclude(r);
            return Ok(());
        }
    }
    su.write(&case.project);
    // reference: from the tree without generated files
    let ref_opts = case.opts.with_mode(ModeS::Build);
    let r0 = runner::run_free(&su.sc.root, &ref_opts);
    let g0: Bytes = su.generated();
    // paths to pre-seed: what the reference generated, or (failed build) what the model says
    // the sources could generate
    let mut paths: Vec<String> = g0.keys().cloned().collect();
    if !r0.ok {
        let cfg = su.cfg(case.opts.trailing_newline);
        let m = crate::model::Model::new(&su.tree, &case.project.dirs, &cfg);
        for p in &m.potential {
            if !paths.contains(p) {
                paths.push(p.clone());
            }
        }
        paths.sort();
    }
    su.wipe_generated();
    let mut seeded: BTreeMap<String, String> = BTreeMap::new();
    let mut interesting = false;
    if let Some(left) = &case.leftover {
        for (p, d) in left {
            let full = su.sc.root.join(p);
            if full.parent().map(|d| d.is_dir()).unwrap_or(false) && !su.tree.contains_key(p) {
                std::fs::write(&full, d.bytes()).expect("seed leftover");
                seeded.insert(p.clone(), "left_by_killed_run".into());
                if Some(d.bytes()) != g0.get(p).map(|b| b.as_slice()) {
                    interesting = true;
                }
            }
        }
        st.class("pre:left_by_killed_run");
        paths.clear();
    }
    for (i, p) in paths.iter().enumerate() {
        let pre = &case.pre[i % case.pre.len()];
        let content = apply_pre(pre, g0.get(p));
        if let Some(b) = &content {
            let full = su.sc.root.join(p);
            if full.parent().map(|d| d.is_dir()).unwrap_or(false) {
                std::fs::write(&full, b).expect("seed");
                if Some(b) != g0.get(p) {
                    interesting = true;
                }
                let kind = match pre {
                    Pre::Prefix(_) => {
                        if std::str::from_utf8(b).is_err() { "prefix_inside_multibyte_char".to_string() } else { "prefix".to_string() }
                    }
                    Pre::Random(_) => if std::str::from_utf8(b).is_err() { "random_invalid_utf8".into() } else { "random_text".into() },
                    other => format!("{other:?}").to_lowercase(),
                };
                st.class(&format!("pre:{kind}"));
                seeded.insert(p.clone(), kind);
            }
        }
    }
    if case.needed_first {
        let _ = runner::run_free(&su.sc.root, &case.opts.with_mode(ModeS::Needed));
        st.class("history:needed_then_build");
    }
    let r1 = runner::run_free(&su.sc.root, &case.opts);
    let g1: Bytes = su.generated();
    if interesting {
        st.nontrivial_hash(&serde_json::to_string(case).unwrap());
    }
    st.class(&format!("mode:{:?}/{}", case.opts.mode, if r0.ok { "ok" } else { "err" }));
    st.sample(|| serde_json::json!({"case": case, "seeded": seeded}), 3);
    let sig_mode = format!("{:?}", case.opts.mode).to_lowercase();
    if r1.ok != r0.ok {
        let kinds: Vec<&String> = seeded.values().collect();
        let bad_utf8 = kinds.iter().any(|k| k.contains("invalid_utf8") || k.contains("multibyte"));
        return viol(
            &format!("C08 verdict-depends-on-leftovers {sig_mode}{}", if bad_utf8 { " non-utf8-leftover" } else { "" }),
            format!(
                "from the tree without generated files the build {}; with leftovers {seeded:?} the {sig_mode} build {}: {}",
                if r0.ok { "succeeds" } else { "fails" },
                if r1.ok { "succeeds" } else { "fails" },
                super::common::short_err(&r1.err)
            ),
        );
    }
    if r0.ok {
        for (p, want) in &g0 {
            match g1.get(p) {
                Some(got) if got == want => {}
                other => {
                    return viol(
                        &format!("C08 bytes-depend-on-leftovers {sig_mode}"),
                        format!(
                            "{p} (pre-state {:?}) differs from the build of the same sources without leftovers:\n  expected {}\n  actual   {}",
                            seeded.get(p),
                            show_bytes(want),
                            other.map(|b| show_bytes(b)).unwrap_or("<missing>".into())
                        ),
                    )
                }
            }
        }
        for p in g1.keys() {
            if !g0.contains_key(p) {
                return viol("C08 extra-file", format!("{p} exists only when leftovers were present"));
            }
        }
        // build twice == build once
        let r2 = runner::run_free(&su.sc.root, &case.opts);
        let g2: Bytes = su.generated();
        if !r2.ok || g2 != g1 {
            return viol(
                &format!("C08 not-idempotent {sig_mode}"),
                format!("a second {sig_mode} build {} ", if r2.ok { "changed the generated files" } else { "failed" }),
            );
        }
    }
    Ok(())
}

fn reduce(case: &Case) -> Vec<Case> {
    let mut v: Vec<Case> = reduce_project(&case.project).into_iter().map(|p| Case { project: p, ..case.clone() }).collect();
    for i in 0..case.pre.len() {
        if case.pre[i] != Pre::Absent {
            let mut c = case.clone();
            c.pre[i] = Pre::Absent;
            v.push(c);
        }
    }
    if case.pre.len() > 1 {
        let mut c = case.clone();
        c.pre.pop();
        v.push(c);
    }
    if case.needed_first {
        let mut c = case.clone();
        c.needed_first = false;
        v.push(c);
    }
    v
}

impl Prop for C08 {
    fn meta(&self) -> PropMeta {
        PropMeta {
            id: "C08",
            level: "fault_enumeration",
            rule: "cases = generated projects x a pre-state for every generated path (absent / correct / stale text / empty / a prefix of the correct bytes cut at any byte, including inside a multi-byte character / random bytes including invalid UTF-8 and NUL / correct plus one line) x mode {build, --needed} x optional --needed run first. The reference is a build of the same sources in the same root from the tree without generated files. Oracle (metamorphic): same verdict; on success every output and temp file byte-identical and no additional file; a second build changes nothing. Crash points of an interrupted earlier run are represented by construction as prefixes of the correct bytes at byte granularity. Non-trivial = at least one generated path pre-seeded with content that is neither absent nor correct; distinct by hash of the case.",
            assumptions: vec![
                "interrupted runs are modelled by their leftover files (regular files with a byte prefix of the content); the SIGKILL supplement of the thorough tier interrupts real CLI runs",
                "generated projects never read a generated path before producing it (such projects are excluded by the model and counted)",
            ],
            hang_is_violation: false,
            needs_cli: false,
        }
    }
    fn worker(&self, ctx: &mut WorkerCtx) {
        let total = if ctx.quick { 24_000 } else { 600_000 };
        let n = ctx.share(total);
        ctx.drive(1, n, 600, &gen_case, &check, &reduce);
        if !ctx.quick && ctx.stats.violations.is_empty() {
            sigkill_supplement(ctx);
        }
    }
    fn replay(&self, case: &Value) -> Check {
        let case: Case = serde_json::from_value(case.clone()).map_err(|e| (format!("bad case: {e}"), "bad-case".to_string()))?;
        check(&case, &mut Stats::default())
    }
}


/// Thorough supplement: interrupt real CLI builds with SIGKILL at pseudo-random times, then check
/// that the tree they left behind is repaired by simply building again. The leftover tree is the
/// reproducible unit (saved in the replay file); the kill timing is not.
fn sigkill_supplement(ctx: &mut WorkerCtx) {
    use crate::gen::project::FileData;
    use std::os::unix::process::CommandExt;
    use std::process::{Command, Stdio};
    let n = ctx.share(1_500);
    let mut kills = 0u64;
    let mut partial_states = 0u64;
    for k in 0..n {
        // a project from a pseudo-random choice sequence (deterministic in seed/shard/k)
        let mut words: Vec<u16> = vec![];
        let mut x = crate::wctx::mix(ctx.seed, "C08-kill", ctx.shard, k);
        for _ in 0..300 {
            x = x.wrapping_mul(6364136223846793005).wrapping_add(1442695040888963407);
            words.push((x >> 40) as u16);
        }
        let mut c = Choices::new(&words);
        let p = GenParams { error_rate: 0, max_sources: 4, max_items: 8, ..GenParams::default() };
        let mut project = gen_project(&mut c, &p);
        // slow the commands down so that the kill lands mid-build
        for (_, v) in project.files.iter_mut() {
            if let FileData::Text(s) = v {
                *s = s.replace("TXTPP#run ", "TXTPP#run sleep 0.02; ");
            }
        }
        let opts = RunOpts {
            mode: ModeS::Build,
            trailing_newline: true,
            threads: 1 + c.below(3),
            recursive: true,
            inputs: vec![".".into()],
            shell: String::new(),
        };
        let su = materialise(&project);
        su.write(&project);
        // duration of an undisturbed CLI build
        let t0 = std::time::Instant::now();
        let ex = crate::child::run_cli(&su.sc.root, &crate::child::cli_args(&opts), &[], None, std::time::Duration::from_secs(60));
        let full = t0.elapsed();
        if ex.code != Some(0) {
            continue; // accidental errors / out-of-vocabulary projects are not interesting here
        }
        su.wipe_generated();
        let frac = (c.raw() as f64) / 65536.0;
        let delay = full.mul_f64(frac * 1.1);
        let mut cmd = Command::new(crate::child::cli());
        cmd.args(crate::child::cli_args(&opts)).current_dir(&su.sc.root).env_remove("TXTPP_FILE").stdin(Stdio::null()).stdout(Stdio::null()).stderr(Stdio::null()).process_group(0);
        let Ok(mut child) = cmd.spawn() else { continue };
        std::thread::sleep(delay);
        unsafe {
            libc::kill(-(child.id() as i32), libc::SIGKILL);
        }
        let _ = child.wait();
        kills += 1;
        let left: BTreeMap<String, FileData> = su.generated().into_iter().map(|(k, v)| (k, FileData::from_bytes(v))).collect();
        if !left.is_empty() {
            partial_states += 1;
        }
        let case = Case { project: project.clone(), opts: opts.clone(), pre: vec![Pre::Absent], needed_first: false, leftover: Some(left) };
        ctx.journal(&serde_json::to_value(&case).unwrap_or_default());
        ctx.stats.evaluations += 1;
        let mut st = std::mem::take(&mut ctx.stats);
        let r = check(&case, &mut st);
        ctx.stats = st;
        if let Err((m, sig)) = r {
            ctx.stats.violations.push(crate::wctx::Violation { message: format!("after a build killed by SIGKILL at {:?} of {:?}: {m}", delay, full), signature: sig, case: serde_json::to_value(&case).unwrap_or_default() });
            break;
        }
    }
    ctx.stats.count("sigkill_runs", kills);
    ctx.stats.count("sigkill_runs_leaving_generated_files", partial_states);
}
