//! C09 — --needed equals a normal build and rewrites nothing that is unchanged; no mode rewrites
//! a temp file whose content is already correct.

use super::c06::{reference_build, tamper, Op};
use super::common::{materialise, Bytes};
use super::{reduce_project, show_bytes, viol, Check, Prop, PropMeta};
use crate::fsx;
use crate::gen::project::{gen_project, GenParams, Project};
use crate::gen::Choices;
use crate::model::grammar::{self, Item, Kind};
use crate::model::{names, parse_lenient, Verdict};
use crate::runner::{self, ModeS, RunOpts};
use crate::wctx::{Stats, WorkerCtx};
use serde::{Deserialize, Serialize};
use serde_json::Value;

pub struct C09;

#[derive(Debug, Clone, Serialize, Deserialize)]
pub enum Step {
    EditSource(u16, u8),
    /// tamper the k-th generated file (outputs and temps alike)
    Tamper(u16, Op, u16),
    Run(ModeS),
}

#[derive(Debug, Clone, Serialize, Deserialize)]
pub struct Case {
    pub project: Project,
    pub opts: RunOpts,
    pub steps: Vec<Step>,
}

fn gen_case(c: &mut Choices) -> Case {
    let p = GenParams {
        error_rate: 4,
        max_sources: 4,
        max_items: 7,
        no_temp_rewrite: true,
        ..GenParams::default()
    };
    let project = gen_project(c, &p);
    let n = c.below(6);
    let mut steps = vec![];
    for _ in 0..n {
        steps.push(match c.weighted(&[4, 2, 5]) {
            0 => Step::Run(*c.pick(&[ModeS::Build, ModeS::Needed, ModeS::Needed, ModeS::Verify])),
            1 => Step::EditSource(c.raw(), c.below(3) as u8),
            _ => Step::Tamper(
                c.raw(),
                c.pick(&[Op::RemoveFile, Op::Flip, Op::Truncate, Op::Append, Op::Replace, Op::Insert]).clone(),
                c.raw(),
            ),
        });
    }
    steps.push(Step::Run(ModeS::Needed));
    Case {
        project,
        opts: RunOpts {
            mode: ModeS::Needed,
            trailing_newline: !c.chance(1, 5),
            threads: 1 + c.below(4),
            recursive: true,
            inputs: vec![".".into()],
            shell: String::new(),
        },
        steps,
    }
}

fn count_temp_directives(sources: &Bytes) -> usize {
    let mut n = 0;
    for (k, b) in sources {
        if !names::source_shaped(k) {
            continue;
        }
        let Ok(t) = std::str::from_utf8(b) else { continue };
        for it in parse_lenient(&grammar::split_lines(t)) {
            if let Item::Dir(d, _) = it {
                if d.kind == Kind::Temp {
                    n += 1;
                }
            }
        }
    }
    n
}

pub fn check(case: &Case, st: &mut Stats) -> Check {
    let su = materialise(&case.project);
    let ex = su.expect(&case.project, &case.opts);
    if let Verdict::Excluded(r) = &ex.verdict {
        st.exclude(r);
        return Ok(());
    }
    {
        // a temp target written by two directives is legitimately rewritten within one run
        let cfg = su.cfg(true);
        let m = crate::model::Model::new(&su.tree, &case.project.dirs, &cfg);
        let uniq: usize = case.project.sources().iter().map(|s| m.syntactic_temps(s).len()).sum();
        if uniq != count_temp_directives(&su.tree) {
            st.exclude("a temp target is written by more than one directive");
            return Ok(());
        }
    }
    su.write(&case.project);
    let mut sources: Bytes = su.tree.clone();
    let mut nontrivial = false;
    let mut edited_since_build: Vec<String> = vec![];
    let last = case.steps.len() - 1;
    for (si, step) in case.steps.iter().enumerate() {
        match step {
            Step::EditSource(which, edit) => {
                let srcs = case.project.sources();
            if srcs.is_empty() {
                return Ok(());
            }
                let s = &srcs[((*which as usize) * srcs.len()) >> 16];
                let mut b = sources[s].clone();
                match edit {
                    0 => b.extend_from_slice(b"appended line\n"),
                    1 => {
                        let mut nb = b"new first line\n".to_vec();
                        nb.extend_from_slice(&b);
                        b = nb;
                    }
                    _ => {
                        if let Some(i) = b.iter().position(|x| x.is_ascii_lowercase()) {
                            b[i] = b[i].to_ascii_uppercase();
                        }
                    }
                }
                // keep the edit inside the domain
                if crate::model::text_problem(&b).is_none() {
                    std::fs::write(su.sc.root.join(s), &b).expect("edit");
                    sources.insert(s.clone(), b);
                    edited_since_build.push(s.clone());
                }
            }
            Step::Tamper(which, op, pos) => {
                let gen: Vec<String> = su.generated().keys().cloned().collect();
                if gen.is_empty() {
                    continue;
                }
                let p = &gen[((*which as usize) * gen.len()) >> 16];
                let full = su.sc.root.join(p);
                let b = std::fs::read(&full).unwrap_or_default();
                match tamper(&b, op, *pos) {
                    Some(nb) => std::fs::write(&full, nb).expect("tamper"),
                    None => {
                        let _ = std::fs::remove_file(&full);
                    }
                }
            }
            Step::Run(mode) => {
                // the edited sources may have left the model's domain
                let cfg = su.cfg(case.opts.trailing_newline);
                let mut m = crate::model::Model::new(&sources, &case.project.dirs, &cfg);
                let e2 = m.build(&case.opts.inputs, case.opts.recursive);
                if let Verdict::Excluded(r) = &e2.verdict {
                    st.exclude(r);
                    return Ok(());
                }
                let opts = case.opts.with_mode(*mode);
                let (rref, fresh, _) = reference_build(&su, &sources, &opts);
                let before_bytes: Bytes = su.generated();
                // sentinel mtimes, as in real life: generated files are newer than sources they
                // were built from, a source edited after the last build is newer still
                fsx::stamp(&su.sc.root);
                for p in before_bytes.keys() {
                    fsx::set_mtime(&su.sc.root.join(p), fsx::SENTINEL_SECS + 1000);
                }
                for p in &edited_since_build {
                    fsx::set_mtime(&su.sc.root.join(p), fsx::SENTINEL_SECS + 2000);
                }
                let snap0 = fsx::snapshot(&su.sc.root);
                let out = runner::run_free(&su.sc.root, &opts);
                if matches!(mode, ModeS::Build | ModeS::Needed) && out.ok {
                    edited_since_build.clear();
                }
                let snap1 = fsx::snapshot(&su.sc.root);
                let d = fsx::diff(&snap0, &snap1);
                let after_bytes: Bytes = su.generated();
                let outputs: Vec<String> = sources.keys().filter_map(|s| names::output_of(s)).collect();
                let mut uptodate = 0;
                let mut stale = 0;
                for (p, want) in &fresh {
                    if before_bytes.get(p) == Some(want) {
                        uptodate += 1;
                    } else {
                        stale += 1;
                    }
                }
                st.class(&format!("run:{mode:?}/{}", if rref.ok { "ok" } else { "err" }));
                if *mode == ModeS::Needed && si == last && rref.ok && (uptodate > 0 && (stale > 0 || stale == 0)) {
                    nontrivial = true;
                    st.class(if stale > 0 { "final:partially_stale" } else { "final:all_up_to_date" });
                }
                if matches!(mode, ModeS::Needed | ModeS::Build) {
                    if out.ok != rref.ok {
                        let bad = before_bytes.values().any(|b| std::str::from_utf8(b).is_err());
                        return viol(
                            &format!("C09 verdict-differs-from-build {mode:?}{}", if bad { " non-utf8-existing-file" } else { "" }),
                            format!(
                                "step {si} ({mode:?}): a normal build of the current sources {} but this run {}: {}",
                                if rref.ok { "succeeds" } else { "fails" },
                                if out.ok { "succeeds" } else { "fails" },
                                super::common::short_err(&out.err)
                            ),
                        );
                    }
                    if out.ok {
                        for (p, want) in &fresh {
                            if after_bytes.get(p) != Some(want) {
                                return viol(
                                    &format!("C09 bytes-differ-from-build {mode:?}"),
                                    format!(
                                        "step {si} ({mode:?}): {p} differs from a normal build:\n  expected {}\n  actual   {}",
                                        show_bytes(want),
                                        after_bytes.get(p).map(|b| show_bytes(b)).unwrap_or("<missing>".into())
                                    ),
                                );
                            }
                        }
                    }
                }
                // no-rewrite rules (need the reference to know what "already correct" means)
                if rref.ok {
                    for (p, want) in &fresh {
                        if before_bytes.get(p) != Some(want) {
                            continue;
                        }
                        let is_output = outputs.contains(p);
                        if is_output && *mode != ModeS::Needed && *mode != ModeS::Verify {
                            continue; // a normal build may rewrite outputs
                        }
                        if let Some(ch) = d.get(p) {
                            return viol(
                                &format!("C09 rewrote-up-to-date-{} {mode:?}", if is_output { "output" } else { "temp" }),
                                format!("step {si} ({mode:?}): {p} already had the correct content but was {ch:?}"),
                            );
                        }
                    }
                }
            }
        }
    }
    if nontrivial {
        st.nontrivial_hash(&serde_json::to_string(case).unwrap());
    }
    st.sample(|| serde_json::json!({"case": case}), 3);
    Ok(())
}

fn reduce(case: &Case) -> Vec<Case> {
    let mut v: Vec<Case> = reduce_project(&case.project).into_iter().map(|p| Case { project: p, ..case.clone() }).collect();
    for i in 0..case.steps.len().saturating_sub(1) {
        let mut c = case.clone();
        c.steps.remove(i);
        v.push(c);
    }
    v
}

impl Prop for C09 {
    fn meta(&self) -> PropMeta {
        PropMeta {
            id: "C09",
            level: "exploration",
            rule: "cases = generated projects x histories of up to 5 steps from {edit a source, tamper or delete a generated file (output or temp), build, --needed build, verify} followed by a final --needed build. Before every run the reference result of a normal build of the current sources is obtained in the same root (save generated files / wipe / build / record / restore), all mtimes are set to a sentinel and the tree is snapshotted. Oracle: every build and --needed run has the verdict of the normal build and, on success, leaves every generated file byte-identical to it; a --needed (or verify) run leaves every output that already had the correct content untouched (inode, mtime), and no run in any non-clean mode touches a temp file that already had the correct content. Non-trivial = the final --needed build meets at least one up-to-date generated file; distinct by hash.",
            assumptions: vec!["projects where one temp target is written by two directives are excluded (the second write legitimately rewrites it)"],
            hang_is_violation: false,
            needs_cli: false,
        }
    }
    fn worker(&self, ctx: &mut WorkerCtx) {
        let total = if ctx.quick { 15_000 } else { 400_000 };
        let n = ctx.share(total);
        ctx.drive(1, n, 600, &gen_case, &check, &reduce);
    }
    fn replay(&self, case: &Value) -> Check {
        let case: Case = serde_json::from_value(case.clone()).map_err(|e| (format!("bad case: {e}"), "bad-case".to_string()))?;
        check(&case, &mut Stats::default())
    }
}
