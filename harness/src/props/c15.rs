//! C15 — directive recognition and continuation follow the documented grammar.
//! Bounded-exhaustive differential test of txtpp's `Directive::detect_from` / `add_line`
//! (through the `verif` re-export) against the reference grammar, plus longer random lines.

use super::{viol, Check, Prop, PropMeta};
use crate::gen::Choices;
use crate::model::grammar::{self, Cont, Kind};
use crate::wctx::{Stats, Violation, WorkerCtx};
use serde::{Deserialize, Serialize};
use serde_json::Value;
use txtpp::verif::{Directive, DirectiveType};

pub struct C15;

pub const TOKENS: &[&str] = &[
    " ", "\t", "-", "//", "TXTPP#", "TXTPP", "#", "include", "after", "run", "temp", "tag", "write", "runx", "x", "é", "\u{3000}",
];

#[derive(Debug, Clone, Serialize, Deserialize)]
pub enum Case {
    Line(String),
    Pair(String, String),
    /// end-to-end: a small file of directive / continuation-like / text lines through a whole
    /// build, judged by the reference model (line kept vs consumed, where a directive ends,
    /// prefix-less multi-line directives rejected)
    File(super::c01::Case),
}

fn kind_of(t: &DirectiveType) -> Kind {
    match t {
        DirectiveType::Empty => Kind::Empty,
        DirectiveType::Include => Kind::Include,
        DirectiveType::After => Kind::After,
        DirectiveType::Run => Kind::Run,
        DirectiveType::Tag => Kind::Tag,
        DirectiveType::Temp => Kind::Temp,
        DirectiveType::Write => Kind::Write,
    }
}

fn same(d: &Directive, m: &grammar::Dir) -> bool {
    d.whitespaces == m.indent && d.prefix == m.prefix && kind_of(&d.directive_type) == m.kind && d.args == m.args
}

fn show(d: &Option<Directive>) -> String {
    match d {
        None => "ordinary text".into(),
        Some(d) => format!(
            "directive {:?} indent={:?} prefix={:?} args={:?}",
            kind_of(&d.directive_type),
            d.whitespaces,
            d.prefix,
            d.args
        ),
    }
}

pub fn check_line(line: &str) -> Check {
    let Ok(got) = std::panic::catch_unwind(|| Directive::detect_from(line)) else {
        return viol("C15 panic", format!("line {line:?}: detect_from panicked"));
    };
    let want = grammar::detect(line);
    let ok = match (&got, &want) {
        (None, None) => true,
        (Some(g), Some(w)) => same(g, w),
        _ => false,
    };
    if !ok {
        let sig = match (&got, &want) {
            (Some(_), None) => "C15 text-taken-as-directive",
            (None, Some(_)) => "C15 directive-taken-as-text",
            _ => "C15 directive-parts-differ",
        };
        return viol(
            sig,
            format!("line {line:?}: documented grammar says {want:?}, txtpp says {}", show(&got)),
        );
    }
    Ok(())
}

/// returns Ok(true) if the pair was compared, Ok(false) if the README is ambiguous for it
pub fn check_pair(dline: &str, cline: &str) -> Result<bool, (String, String)> {
    let Ok(Some(mut d)) = std::panic::catch_unwind(|| Directive::detect_from(dline)) else {
        return Ok(false);
    };
    let Some(m) = grammar::detect(dline) else {
        return Ok(false); // reported by check_line
    };
    let want = grammar::cont(&m, cline);
    let before = d.args.len();
    let Ok((d, r)) = std::panic::catch_unwind(move || {
        let r = d.add_line(cline);
        (d, r)
    }) else {
        return Err((format!("directive {dline:?} + line {cline:?}: add_line panicked"), "C15 panic".into()));
    };
    match (want, r) {
        (Cont::Ambiguous, _) => Ok(false),
        (Cont::End, Err(())) => {
            if d.args.len() != before {
                return Err((
                    format!("directive {dline:?} + line {cline:?}: line rejected but arguments changed"),
                    "C15 rejected-line-changes-args".into(),
                ));
            }
            Ok(true)
        }
        (Cont::Arg(a), Ok(())) => {
            if d.args.len() != before + 1 || d.args.last() != Some(&a) {
                return Err((
                    format!(
                        "directive {dline:?} + line {cline:?}: documented argument {a:?}, txtpp arguments {:?}",
                        d.args
                    ),
                    "C15 continuation-argument-differs".into(),
                ));
            }
            Ok(true)
        }
        (Cont::End, Ok(())) => Err((
            format!(
                "directive {dline:?}: line {cline:?} must end the directive but was taken as continuation (args {:?})",
                d.args
            ),
            "C15 line-wrongly-continues".into(),
        )),
        (Cont::Arg(a), Err(())) => Err((
            format!("directive {dline:?}: line {cline:?} must continue it with argument {a:?} but was rejected"),
            "C15 continuation-rejected".into(),
        )),
    }
}

/// The README's "as many spaces as the prefix is long" can be read in bytes or in characters
/// for a non-ASCII prefix; the checks above take no side. But an implementation must mean ONE
/// thing by it: probe a line with exactly byte-length spaces and one with exactly
/// character-length spaces and require both answers to come from the same reading.
pub fn check_space_consistency(dline: &str) -> Check {
    let Some(m) = grammar::detect(dline) else { return Ok(()) };
    if !m.kind.multi_line() || m.prefix.is_ascii() || m.prefix.is_empty() {
        return Ok(());
    }
    let nb = m.prefix.len();
    let nc = m.prefix.chars().count();
    let probe = |n: usize| -> Option<Option<String>> {
        let line = format!("{}{}x", m.indent, " ".repeat(n));
        let mut d = std::panic::catch_unwind(|| Directive::detect_from(dline)).ok()??;
        let r = std::panic::catch_unwind(move || {
            let r = d.add_line(&line);
            (d, r)
        })
        .ok()?;
        Some(match r.1 {
            Ok(()) => r.0.args.last().cloned(),
            Err(()) => None,
        })
    };
    let (Some(at_bytes), Some(at_chars)) = (probe(nb), probe(nc)) else {
        return viol("C15 panic", format!("directive {dline:?}: add_line panicked on a space continuation"));
    };
    // reading "bytes": (Some("x"), None); reading "characters": (Some(pad + "x"), Some("x"))
    let pad = " ".repeat(nb - nc);
    let bytes_reading = at_bytes == Some("x".to_string()) && at_chars.is_none();
    let chars_reading = at_bytes == Some(format!("{pad}x")) && at_chars == Some("x".to_string());
    if !bytes_reading && !chars_reading {
        return viol(
            "C15 space-continuation-inconsistent",
            format!(
                "directive {dline:?} (prefix of {nb} bytes / {nc} characters): a line with {nb} spaces gives {at_bytes:?}, a line with {nc} spaces gives {at_chars:?}; neither the byte-length nor the character-length reading of 'as many spaces as the prefix is long' explains both"
            ),
        );
    }
    Ok(())
}

fn check_case(case: &Case) -> Check {
    match case {
        Case::Line(l) => check_line(l),
        Case::Pair(d, c) => {
            check_space_consistency(d)?;
            check_pair(d, c).map(|_| ())
        }
        Case::File(f) => super::c01::check(f, &mut Stats::default()).map_err(|(m, s)| (m, s.replace("C01", "C15 file"))),
    }
}

/// all lines of exactly `n` tokens, by index
fn line_of(mut idx: u64, n: usize) -> String {
    let mut s = String::new();
    for _ in 0..n {
        s.push_str(TOKENS[(idx % TOKENS.len() as u64) as usize]);
        idx /= TOKENS.len() as u64;
    }
    s
}

fn count_lines(max_tokens: usize) -> u64 {
    (0..=max_tokens).map(|n| (TOKENS.len() as u64).pow(n as u32)).sum()
}

fn nth_line(mut i: u64, max_tokens: usize) -> String {
    for n in 0..=max_tokens {
        let c = (TOKENS.len() as u64).pow(n as u32);
        if i < c {
            return line_of(i, n);
        }
        i -= c;
    }
    unreachable!()
}

pub fn directive_lines() -> Vec<String> {
    let mut v = vec![];
    for indent in ["", " ", "\t", "  ", "\u{3000}"] {
        for prefix in ["", "-", "//", "// ", "# ", "é", "- -"] {
            for name in ["", "include", "after", "run", "temp", "tag", "write"] {
                for arg in ["", " a", " a  "] {
                    v.push(format!("{indent}{prefix}TXTPP#{name}{arg}"));
                }
            }
        }
    }
    v
}

/// greedy minimisation by deleting characters
fn minimise(case: &Case) -> Case {
    let fails = |c: &Case| check_case(c).is_err();
    let mut cur = case.clone();
    loop {
        let mut progress = false;
        let cands: Vec<Case> = match &cur {
            Case::File(_) => vec![],
            Case::Line(l) => (0..l.chars().count())
                .map(|i| Case::Line(l.chars().enumerate().filter(|(j, _)| *j != i).map(|(_, c)| c).collect()))
                .collect(),
            Case::Pair(d, c) => {
                let mut v: Vec<Case> = (0..c.chars().count())
                    .map(|i| Case::Pair(d.clone(), c.chars().enumerate().filter(|(j, _)| *j != i).map(|(_, ch)| ch).collect()))
                    .collect();
                v.extend((0..d.chars().count()).map(|i| {
                    Case::Pair(d.chars().enumerate().filter(|(j, _)| *j != i).map(|(_, ch)| ch).collect(), c.clone())
                }));
                v
            }
        };
        for c in cands {
            if fails(&c) {
                cur = c;
                progress = true;
                break;
            }
        }
        if !progress {
            return cur;
        }
    }
}

fn gen_random(c: &mut Choices) -> Case {
    let gen_line = |c: &mut Choices, lo: usize, hi: usize| -> String {
        let n = lo + c.below(hi - lo + 1);
        (0..n).map(|_| *c.pick(TOKENS)).collect()
    };
    if c.chance(1, 2) {
        Case::Line(gen_line(c, 5, 12))
    } else {
        let dl = directive_lines();
        let mut d = dl[c.below(dl.len())].clone();
        if c.chance(1, 3) {
            d = format!("{}{}", gen_line(c, 0, 3), d);
        }
        // candidate continuation: often built from the directive's own indent/prefix
        let cl = if c.chance(1, 2) {
            gen_line(c, 0, 8)
        } else {
            let m = grammar::detect(&d);
            match m {
                Some(m) => {
                    let lead = match c.below(4) {
                        0 => m.prefix.clone(),
                        1 => " ".repeat(m.prefix.len()),
                        2 => " ".repeat(m.prefix.chars().count()),
                        _ => m.prefix.trim_end().to_string(),
                    };
                    format!("{}{}{}", m.indent, lead, gen_line(c, 0, 4))
                }
                None => gen_line(c, 0, 8),
            }
        };
        Case::Pair(d, cl)
    }
}

impl Prop for C15 {
    fn meta(&self) -> PropMeta {
        PropMeta {
            id: "C15",
            level: "exploration",
            rule: "bounded-exhaustive: every line of <=4 (quick) / <=5 (thorough) tokens over {space, tab, '-', '//', 'TXTPP#', 'TXTPP', '#', include, after, run, temp, tag, write, runx, x, é, U+3000 (whitespace that is not ASCII)} is classified by txtpp's detect_from and by the reference grammar transcribed from the property statement (directive or not; indent, prefix, kind, trimmed first argument); every (directive line from 5 indents (one of them U+3000) x 7 prefixes x 7 names x 3 argument forms) x (candidate continuation line of <=3 / <=4 tokens) is pushed through add_line and compared (continues or ends; right-trimmed argument). Plus proptest-generated longer lines and pairs whose continuation is built from the directive's own indent and prefix. Pairs where byte- and character-length readings of 'as many spaces as the prefix is long' differ are excluded and counted. Non-trivial = line contains TXTPP#, or pair whose directive may span lines; enumerated cases are distinct by construction.",
            assumptions: vec!["Directive/DirectiveType are reached through the add-only `verif` re-export; the reference grammar is harness/src/model/grammar.rs"],
            hang_is_violation: false,
            needs_cli: false,
        }
    }

    fn worker(&self, ctx: &mut WorkerCtx) {
        let max_line = if ctx.quick { 4 } else { 5 };
        let max_cont = if ctx.quick { 3 } else { 4 };
        let n_lines = count_lines(max_line);
        let mut first_fail: Option<Case> = None;
        let mut i = ctx.shard as u64;
        let mut samples = 0;
        while i < n_lines {
            let l = nth_line(i, max_line);
            if i % 1024 < ctx.nshards as u64 {
                crate::wctx::beat();
            }
            ctx.stats.evaluations += 1;
            if l.contains("TXTPP#") {
                ctx.stats.nontrivial_counted += 1;
                if samples < 2 && i > 3000 {
                    samples += 1;
                    let got = show(&Directive::detect_from(&l));
                    ctx.stats.samples.push(serde_json::json!({"line": l, "classified_as": got}));
                }
            }
            if first_fail.is_none() && check_line(&l).is_err() {
                first_fail = Some(Case::Line(l));
            }
            i += ctx.nshards as u64;
        }
        ctx.stats.exhaustive.insert(format!("lines_up_to_{max_line}_tokens"), ctx.share(n_lines));
        ctx.heartbeat();
        // consistency of the space-continuation rule for non-ASCII prefixes
        if ctx.shard == 0 {
            for indent in ["", " ", "\t"] {
                for prefix in ["é", "語 ", "→→", "§ ", "é-", "-é"] {
                    for name in ["", "run", "temp", "write"] {
                        let dl = format!("{indent}{prefix}TXTPP#{name} a");
                        ctx.stats.evaluations += 1;
                        ctx.stats.nontrivial_counted += 1;
                        if first_fail.is_none() && check_space_consistency(&dl).is_err() {
                            first_fail = Some(Case::Pair(dl, String::new()));
                        }
                    }
                }
            }
        }
        // pairs
        let dls = directive_lines();
        let n_cont = count_lines(max_cont);
        let total_pairs = dls.len() as u64 * n_cont;
        let mut j = ctx.shard as u64;
        let mut compared = 0u64;
        let mut ambiguous = 0u64;
        let mut continued = 0u64;
        while j < n_cont {
            let cl = nth_line(j, max_cont);
            crate::wctx::beat();
            for dl in &dls {
                ctx.stats.evaluations += 1;
                match check_pair(dl, &cl) {
                    Ok(true) => {
                        compared += 1;
                        let m = grammar::detect(dl).unwrap();
                        if m.kind.multi_line() {
                            ctx.stats.nontrivial_counted += 1;
                            if matches!(grammar::cont(&m, &cl), Cont::Arg(_)) {
                                continued += 1;
                                if continued == 500 {
                                    ctx.stats.samples.push(serde_json::json!({"directive": dl, "continuation": cl, "result": format!("{:?}", grammar::cont(&m, &cl))}));
                                }
                            }
                        }
                    }
                    Ok(false) => ambiguous += 1,
                    Err(_) => {
                        if first_fail.is_none() {
                            first_fail = Some(Case::Pair(dl.clone(), cl.clone()));
                        }
                    }
                }
            }
            if j % 4096 < ctx.nshards as u64 {
                ctx.heartbeat();
            }
            j += ctx.nshards as u64;
        }
        ctx.stats.exhaustive.insert(format!("directive_x_continuation_up_to_{max_cont}_tokens"), ctx.share(n_cont) * dls.len() as u64);
        ctx.stats.count("pairs_compared", compared);
        ctx.stats.count("pairs_that_continue", continued);
        ctx.stats.count("pairs_total_all_shards", if ctx.shard == 0 { total_pairs } else { 0 });
        if ambiguous > 0 {
            *ctx.stats.excluded.entry("continuation by spaces after a non-ASCII prefix (byte vs char length)".into()).or_insert(0) += ambiguous;
        }
        if let Some(f) = first_fail {
            let m = minimise(&f);
            let (msg, sig) = check_case(&m).err().unwrap();
            ctx.stats.violations.push(Violation { message: msg, signature: sig, case: serde_json::to_value(&m).unwrap() });
            return;
        }
        // longer random lines and pairs
        let total = if ctx.quick { 200_000 } else { 4_000_000 };
        let n = ctx.share(total);
        let chk = |c: &Case, st: &mut Stats| -> Check {
            match c {
                Case::Line(l) => {
                    if l.contains("TXTPP#") {
                        st.nontrivial_hash(l);
                    }
                    check_line(l)
                }
                Case::Pair(d, cl) => match check_pair(d, cl) {
                    Ok(true) => {
                        st.nontrivial_hash(&(d, cl));
                        Ok(())
                    }
                    Ok(false) => {
                        st.exclude("continuation by spaces after a non-ASCII prefix (byte vs char length) / not a directive");
                        Ok(())
                    }
                    Err(e) => Err(e),
                },
                Case::File(_) => Ok(()),
            }
        };
        let red = |c: &Case| -> Vec<Case> {
            let m = minimise(c);
            if serde_json::to_string(&m).ok() == serde_json::to_string(c).ok() {
                vec![]
            } else {
                vec![m]
            }
        };
        ctx.drive(2, n, 40, &gen_random, &chk, &red);
        if !ctx.stats.violations.is_empty() {
            return;
        }
        // end-to-end files
        let total = if ctx.quick { 24_000 } else { 600_000 };
        let n = ctx.share(total);
        let gen_file = |c: &mut Choices| -> Case {
            let kinds = ["", "write", "temp", "tag", "include", "after", "writex"];
            let mut lines: Vec<String> = vec![];
            let n = 2 + c.below(4);
            let mut last: Option<(String, String)> = None;
            for _ in 0..n {
                let l = match c.weighted(&[4, 4, 3]) {
                    0 => {
                        let ind = *c.pick(&["", " ", "\t", "  ", "\u{3000}"]);
                        let pre = *c.pick(&["", "-", "//", "// ", "# "]);
                        let k = *c.pick(&kinds);
                        let arg = *c.pick(&["", " a", " a  ", " T", " b.txt"]);
                        last = Some((ind.to_string(), pre.to_string()));
                        format!("{ind}{pre}TXTPP#{k}{arg}")
                    }
                    1 => {
                        let (ind, pre) = last.clone().unwrap_or_default();
                        let lead = match c.below(5) {
                            0 => pre.clone(),
                            1 => " ".repeat(pre.len()),
                            2 => pre.trim_end().to_string(),
                            3 => " ".repeat(pre.len().saturating_sub(1)),
                            _ => String::new(),
                        };
                        format!("{ind}{lead}{}", c.pick(&["x", "", " y", "TXTPP#write z", "T", "-"]))
                    }
                    _ => c.pick(&["text", "T here", "", " ", "-", "// c", "TXTPP# x", "TXTPPx#"]).to_string(),
                };
                lines.push(l);
            }
            let mut text = lines.join("\n");
            if c.chance(3, 4) {
                text.push('\n');
            }
            let mut project = crate::gen::project::Project::default();
            project.put("t.txt.txtpp", text);
            if c.chance(1, 2) {
                project.put("b.txt", "included\n");
            }
            Case::File(super::c01::Case {
                project,
                opts: crate::runner::RunOpts {
                    mode: crate::runner::ModeS::Build,
                    trailing_newline: true,
                    threads: 1,
                    recursive: false,
                    inputs: vec!["t.txt".into()],
                    shell: String::new(),
                },
                golden: None,
            })
        };
        let chk_file = |c: &Case, st: &mut Stats| -> Check {
            let Case::File(f) = c else { return Ok(()) };
            let mut tmp = Stats::default();
            let r = super::c01::check(f, &mut tmp).map_err(|(m, s)| (m, s.replace("C01", "C15 file")));
            for (k, v) in tmp.excluded {
                *st.excluded.entry(k).or_insert(0) += v;
            }
            if !tmp.nontrivial.is_empty() || tmp.classes.contains_key("expect_err") {
                st.nontrivial_hash(&serde_json::to_string(f).unwrap_or_default());
            }
            st.class("end_to_end_file");
            st.sample(|| serde_json::json!({"file_case": f}), 5);
            r
        };
        let red_file = |c: &Case| -> Vec<Case> {
            match c {
                Case::File(f) => super::reduce_project(&f.project)
                    .into_iter()
                    .filter(|p| p.files.contains_key("t.txt.txtpp"))
                    .map(|p| Case::File(super::c01::Case { project: p, opts: f.opts.clone(), golden: None }))
                    .collect(),
                _ => vec![],
            }
        };
        ctx.drive(3, n, 60, &gen_file, &chk_file, &red_file);
    }

    fn replay(&self, case: &Value) -> Check {
        let case: Case = serde_json::from_value(case.clone()).map_err(|e| (format!("bad case: {e}"), "bad-case".to_string()))?;
        check_case(&case)
    }
}
