//! C16 — ordinary text passes through unchanged; write output is inert.
//! Round-trip oracles built by construction; no model involved.

use super::common::{materialise, short_err};
use super::{show_bytes, viol, Check, Prop, PropMeta};
use crate::gen::project::Project;
use crate::gen::Choices;
use crate::runner::{self, ModeS, RunOpts};
use crate::wctx::{Stats, WorkerCtx};
use serde::{Deserialize, Serialize};
use serde_json::Value;

pub struct C16;

#[derive(Debug, Clone, Serialize, Deserialize)]
pub enum Case {
    /// a source without any directive line
    Identity {
        lines: Vec<String>,
        crlf: bool,
        /// per-line terminator flips (mixed endings), same length as lines
        flips: Vec<bool>,
        final_newline: bool,
        trailing_newline: bool,
        /// 0 = fresh directory; 1 = an older, longer output is present (build); 2 = same with --needed
        #[serde(default)]
        stale: u8,
        /// two more sources are built in the same run, before this one and by the same worker
        /// thread: one with ordinary text before an include of the other's output
        #[serde(default)]
        company: bool,
        /// the first line is padded to this many more bytes (a long first line)
        #[serde(default)]
        pad_first: u16,
    },
    /// `text` escaped by one write directive, surrounded by stored tags
    Escape {
        text: Vec<String>,
        indent: String,
        prefix: String,
        /// (tag name, stored content); names may occur in the text
        tags: Vec<(String, String)>,
        before: Vec<String>,
        crlf: bool,
        trailing_newline: bool,
        #[serde(default)]
        stale: u8,
    },
}

const PIECES: &[&str] = &[
    "hello", "x", " ", "  ", "\t", "#", "//", "-", "é", "語", "end", "TXTPP#", "TXTPP#run", "TXTPP#run echo hi", "-TXTPP#", "TXTPP#include a.txt",
    "TXTPP#tag T", "TXTPP", "TXTPP#write", "TXTPP#temp f", "TXTPP#after", "TAG", "T1", "<v>", "txtpp#", "TXTPP#runx", "// TXTPP# ", "TXTPP# ",
];
const NAMES: &[&str] = &["", "include", "after", "run", "temp", "tag", "write"];
const INDENTS: &[&str] = &["", "  ", "\t", "    ", " \t "];
const PREFIXES: &[&str] = &["-", "//", "// ", "# ", "/* ", "<!-- ", "é", "--"];
const TAGS: &[&str] = &["TAG", "T1", "<v>", "NAME"];

/// Is this line a directive line according to the property's own wording? (first TXTPP# after
/// the leading whitespace, followed by a name and then a space or the end of the line)
fn is_directive_line(line: &str) -> bool {
    let t = line.trim_start();
    match t.find("TXTPP#") {
        None => false,
        Some(i) => {
            let after = &t[i + 6..];
            let name = match after.find(' ') {
                Some(j) => &after[..j],
                None => after,
            };
            NAMES.contains(&name)
        }
    }
}

fn gen_line(c: &mut Choices) -> String {
    let n = 1 + c.below(4);
    let mut s = String::new();
    for _ in 0..n {
        s.push_str(*c.pick(PIECES));
    }
    s
}

fn gen_case(c: &mut Choices) -> Case {
    let crlf = c.chance(1, 3);
    let trailing_newline = !c.chance(1, 3);
    if !c.chance(1, 2) {
        let n = c.below(7);
        let mut lines = vec![];
        for _ in 0..n {
            let mut l = gen_line(c);
            // make it ordinary text by construction: break the directive shape
            let mut guard = 0;
            while is_directive_line(&l) && guard < 8 {
                l = l.replacen("TXTPP#", if guard % 2 == 0 { "TXTPP#_" } else { "TXTPP~" }, 1);
                guard += 1;
            }
            lines.push(l);
        }
        let flips = (0..n).map(|i| i > 0 && c.chance(1, 6)).collect();
        Case::Identity {
            lines,
            crlf,
            flips,
            final_newline: !c.chance(1, 4),
            trailing_newline,
            stale: c.weighted(&[4, 1, 2]) as u8,
            company: c.chance(1, 3),
            pad_first: if c.chance(1, 4) { *c.pick(&[250u16, 254, 255, 256, 300, 1000, 8190, 8192, 9000]) } else { 0 },
        }
    } else {
        let n = 1 + c.below(5);
        let mut text = vec![];
        for i in 0..n {
            let mut l = gen_line(c).trim_end().to_string();
            if i == 0 {
                l = l.trim_start().to_string();
            }
            text.push(l);
        }
        let nt = c.below(3);
        let mut tags = vec![];
        for i in 0..nt {
            let name = TAGS[(c.below(TAGS.len()) + i) % TAGS.len()].to_string();
            if tags.iter().any(|(n, _): &(String, String)| n.starts_with(&name) || name.starts_with(n.as_str())) {
                continue;
            }
            // contents may mention another tag's name: substituted text is never scanned again
            let content = c.pick(&["INJECTED", "a\nb", "", "TXTPP#run echo no", "TAG", "see T1 and NAME", "<v>"]).to_string();
            tags.push((name, content));
        }
        let nb = c.below(3);
        let before = (0..nb).map(|_| "plain text".to_string()).collect();
        Case::Escape {
            text,
            indent: c.pick(INDENTS).to_string(),
            prefix: c.pick(PREFIXES).to_string(),
            tags,
            before,
            crlf,
            trailing_newline,
            stale: c.weighted(&[4, 1, 2]) as u8,
        }
    }
}

fn opts(trailing_newline: bool) -> RunOpts {
    opts_mode(trailing_newline, ModeS::Build, false)
}

fn opts_mode(trailing_newline: bool, mode: ModeS, company: bool) -> RunOpts {
    RunOpts {
        mode,
        trailing_newline,
        threads: 1,
        recursive: false,
        inputs: if company { vec!["a.txt".into(), "t.txt".into()] } else { vec!["t.txt".into()] },
        shell: String::new(),
    }
}

/// build `t.txt`, possibly over an older output that starts with the expected bytes and goes on
/// (the result must not depend on it), in build or --needed mode
fn run_over_stale(su: &super::common::Setup, want: &[u8], stale: u8, trailing_newline: bool, company: bool) -> runner::Outcome {
    if stale > 0 {
        let mut old = want.to_vec();
        old.extend_from_slice(b"an older, longer version\n");
        let _ = std::fs::write(su.sc.root.join("t.txt"), old);
    }
    let mode = if stale == 2 { ModeS::Needed } else { ModeS::Build };
    runner::run_free(&su.sc.root, &opts_mode(trailing_newline, mode, company))
}

pub fn check(case: &Case, st: &mut Stats) -> Check {
    match case {
        Case::Identity { lines, crlf, flips, final_newline, trailing_newline, stale, company, pad_first } => {
            let mut lines = lines.clone();
            if let Some(l0) = lines.first_mut() {
                l0.push_str(&"x".repeat(*pad_first as usize));
            }
            let lines = &lines;
            let le = if *crlf { "\r\n" } else { "\n" };
            let other = if *crlf { "\n" } else { "\r\n" };
            let mut src = String::new();
            for (i, l) in lines.iter().enumerate() {
                src.push_str(l);
                if i + 1 < lines.len() || *final_newline {
                    src.push_str(if flips.get(i).copied().unwrap_or(false) { other } else { le });
                }
            }
            // a source without any terminator has the OS ending (LF)
            let eff = if src.contains('\n') { le } else { "\n" };
            let mut want = lines.join(eff);
            if !lines.is_empty() && *trailing_newline {
                want.push_str(eff);
            }
            let mut p = Project::default();
            p.put("t.txt.txtpp", src.clone());
            if *company {
                p.put("a.txt.txtpp", "heading of a\nsecond heading\nTXTPP#include z.txt\nend of a\n".to_string());
                p.put("z.txt.txtpp", "z\n".to_string());
            }
            let su = materialise(&p);
            su.write(&p);
            let out = run_over_stale(&su, want.as_bytes(), *stale, *trailing_newline, *company);
            if lines.iter().any(|l| l.contains("TXTPP") || l.contains("TAG") || l.contains("T1")) {
                st.nontrivial_hash(&(src.clone(), *trailing_newline));
            }
            st.class("identity");
            st.sample(|| serde_json::json!({"identity_source": src, "trailing_newline": trailing_newline}), 2);
            if !out.ok {
                return viol(
                    "C16 identity-build-failed",
                    format!("a source without directive lines failed to build: {}\n  source {src:?}", short_err(&out.err)),
                );
            }
            let got = std::fs::read(su.sc.root.join("t.txt")).unwrap_or_default();
            if got != want.as_bytes() {
                return viol(
                    "C16 identity-changed",
                    format!(
                        "directive-free source is not reproduced:\n  source   {src:?}\n  expected {}\n  actual   {}",
                        show_bytes(want.as_bytes()),
                        show_bytes(&got)
                    ),
                );
            }
            Ok(())
        }
        Case::Escape { text, indent, prefix, tags, before, crlf, trailing_newline, stale } => {
            let le = if *crlf { "\r\n" } else { "\n" };
            let mut src = String::new();
            let mut want = String::new();
            for b in before {
                src.push_str(b);
                src.push_str(le);
                want.push_str(b);
                want.push_str(le);
            }
            // store the tags
            for (name, content) in tags {
                src.push_str(&format!("TXTPP#tag {name}{le}"));
                let mut first = true;
                for part in content.split('\n') {
                    if first {
                        src.push_str(&format!("~TXTPP#write {part}{le}"));
                        first = false;
                    } else {
                        src.push_str(&format!("~{part}{le}"));
                    }
                }
            }
            if !tags.is_empty() {
                // an ordinary line ends the last storing directive (a following indented line
                // would otherwise continue it: "as many spaces as the prefix is long")
                src.push_str(&format!("====={le}"));
                want.push_str(&format!("====={le}"));
            }
            if src.is_empty() {
                // the first line decides the file's line ending
                src.push_str(le);
                want.push_str(le);
            }
            // the escaped text
            for (i, l) in text.iter().enumerate() {
                if i == 0 {
                    src.push_str(&format!("{indent}{prefix}TXTPP#write {l}{le}"));
                } else {
                    src.push_str(&format!("{indent}{prefix}{l}{le}"));
                }
                want.push_str(indent);
                want.push_str(l);
                want.push_str(le);
            }
            // an empty last argument gives the written text its final line ending
            src.push_str(&format!("{indent}{}{le}", prefix.trim_end()));
            // end the directive explicitly (a different prefix), then consume the tags
            src.push_str(&format!("@TXTPP#{le}"));
            for (name, content) in tags {
                src.push_str(&format!("[{name}]{le}"));
                want.push_str(&format!("[{}]{le}", content.replace('\n', le)));
            }
            src.push_str("end");
            want.push_str("end");
            if *trailing_newline {
                want.push_str(le);
            }
            let mut p = Project::default();
            p.put("t.txt.txtpp", src.clone());
            let su = materialise(&p);
            su.write(&p);
            let out = run_over_stale(&su, want.as_bytes(), *stale, *trailing_newline, false);
            let lookalike = text.iter().any(|l| l.contains("TXTPP#") || tags.iter().any(|(n, _)| l.contains(n.as_str())));
            if lookalike {
                st.nontrivial_hash(&(src.clone(), *trailing_newline));
            }
            st.class(if tags.is_empty() { "escape" } else { "escape_with_stored_tags" });
            st.sample(|| serde_json::json!({"escape_source": src, "expected": want}), 4);
            if !out.ok {
                return viol(
                    "C16 escape-build-failed",
                    format!("escaping text with write failed to build: {}\n  source {src:?}", short_err(&out.err)),
                );
            }
            let got = std::fs::read(su.sc.root.join("t.txt")).unwrap_or_default();
            if got != want.as_bytes() {
                return viol(
                    "C16 escape-not-inert",
                    format!(
                        "text escaped with write is not reproduced:\n  source   {src:?}\n  expected {}\n  actual   {}",
                        show_bytes(want.as_bytes()),
                        show_bytes(&got)
                    ),
                );
            }
            // nothing may have been executed or created besides the output
            let gen = su.generated();
            if gen.len() != 1 {
                return viol(
                    "C16 escape-side-effect",
                    format!("escaped text had side effects: generated files {:?}", gen.keys().collect::<Vec<_>>()),
                );
            }
            Ok(())
        }
    }
}

fn reduce(case: &Case) -> Vec<Case> {
    let mut v = vec![];
    match case {
        Case::Identity { lines, crlf, flips, final_newline, trailing_newline, stale, company, pad_first } => {
            for i in 0..lines.len() {
                let mut l = lines.clone();
                l.remove(i);
                let mut f = flips.clone();
                if i < f.len() {
                    f.remove(i);
                }
                v.push(Case::Identity { lines: l, crlf: *crlf, flips: f, final_newline: *final_newline, trailing_newline: *trailing_newline, stale: *stale, company: *company, pad_first: *pad_first });
            }
        }
        Case::Escape { text, indent, prefix, tags, before, crlf, trailing_newline, stale } => {
            for i in 0..text.len() {
                if text.len() > 1 {
                    let mut t = text.clone();
                    t.remove(i);
                    if i == 0 {
                        t[0] = t[0].trim_start().to_string();
                    }
                    v.push(Case::Escape { text: t, indent: indent.clone(), prefix: prefix.clone(), tags: tags.clone(), before: before.clone(), crlf: *crlf, trailing_newline: *trailing_newline, stale: *stale });
                }
            }
            for i in 0..tags.len() {
                let mut t = tags.clone();
                t.remove(i);
                v.push(Case::Escape { text: text.clone(), indent: indent.clone(), prefix: prefix.clone(), tags: t, before: before.clone(), crlf: *crlf, trailing_newline: *trailing_newline, stale: *stale });
            }
            if !before.is_empty() {
                v.push(Case::Escape { text: text.clone(), indent: indent.clone(), prefix: prefix.clone(), tags: tags.clone(), before: vec![], crlf: *crlf, trailing_newline: *trailing_newline, stale: *stale });
            }
        }
    }
    v
}

impl Prop for C16 {
    fn meta(&self) -> PropMeta {
        PropMeta {
            id: "C16",
            level: "exploration",
            rule: "two round trips over an alphabet of directive and tag look-alikes (TXTPP#run, -TXTPP#, TXTPP#include a.txt, tag names in use, prefixes, blanks, non-ASCII), LF/CRLF incl. mixed, first lines of up to 9 KB, with/without final newline, option on/off, from a fresh directory or over an older, longer output (build and --needed), alone or (identity) in one run with two other sources handled first by the same worker thread, one of which has ordinary text before an include of the other's output. Identity: lines made ordinary by construction (no line has the directive shape of the property statement) must come out joined by the file's line ending. Escape: any line sequence (first without leading blank, none with trailing blank) written as one write directive with generated indent and prefix, with 0-2 stored tags whose names may occur in the text, must come out line for line (indented), never executed, never tag-substituted; the stored tags are consumed by trailer lines. Non-trivial = text contains TXTPP or a tag name; distinct by (source, option).",
            assumptions: vec!["expected bytes are computed by construction from the generated pieces, not by the reference model"],
            hang_is_violation: false,
            needs_cli: false,
        }
    }
    fn worker(&self, ctx: &mut WorkerCtx) {
        let total = if ctx.quick { 200_000 } else { 5_000_000 };
        let n = ctx.share(total);
        ctx.drive(1, n, 120, &gen_case, &check, &reduce);
    }
    fn replay(&self, case: &Value) -> Check {
        let case: Case = serde_json::from_value(case.clone()).map_err(|e| (format!("bad case: {e}"), "bad-case".to_string()))?;
        check(&case, &mut Stats::default())
    }
}
