//! C04 — no false success: a failure in any required file fails the whole run.
//! Fault enumeration: fault kind x position of the faulty file x mode x completion order, real
//! OS faults only (occupied paths, invalid bytes, RLIMIT_FSIZE in child processes).

use super::common::{materialise, Bytes};
use super::graphs::Sched;
use super::{show_bytes, viol, Check, Prop, PropMeta};
use crate::child::{self, LibSpec};
use crate::ctl::{Ctl, StreamChooser};
use crate::fsx;
use crate::gen::graph::{gen_graph, GraphSpec};
use crate::gen::project::{FileData, Project};
use crate::gen::Choices;
use crate::model::Verdict;
use crate::runner::{self, ModeS, RunOpts};
use crate::wctx::{Stats, WorkerCtx};
use serde::{Deserialize, Serialize};
use serde_json::Value;
use std::sync::Arc;
use std::time::Duration;

pub struct C04;

thread_local! {
    /// set by C05 when it re-uses the fault cases of this module for its "no spurious
    /// circular-dependency failure" clause
    pub static CYCLE_MISREPORT_IS_VIOLATION: std::cell::Cell<bool> = const { std::cell::Cell::new(false) };
}

/// C05's use of the fault cases: acyclic DAG + one faulty file; only the kind of failure matters
pub fn gen_directive_case(c: &mut Choices) -> Case {
    loop {
        let k = gen_case(c);
        if let Case::Directive { mode, .. } = &k {
            if *mode != ModeS::Clean {
                return k;
            }
        }
        if c.exhausted() {
            // the simplest choices give a Directive/Build case; this is only a safety net
            return gen_case(&mut Choices::new(&[]));
        }
    }
}

pub fn check_cycle_misreport(case: &Case, st: &mut Stats) -> Check {
    CYCLE_MISREPORT_IS_VIOLATION.with(|c| c.set(true));
    let r = check_directive(case, st);
    CYCLE_MISREPORT_IS_VIOLATION.with(|c| c.set(false));
    r
}

/// C03's use of these cases: a run in which one file fails must still return (a run that does
/// not return stalls the worker and is reported by the orchestrator); what it returns is C04's
/// business
pub fn check_terminates(case: &Case, st: &mut Stats) -> Check {
    match check_directive(case, st) {
        Err((m, s)) if s.contains("hang") || m.contains("deadlock") || m.contains("does not return") => Err((m, s)),
        _ => Ok(()),
    }
}

#[derive(Debug, Clone, Copy, PartialEq, Eq, Hash, Serialize, Deserialize)]
pub enum Fault {
    FailingCommand,
    /// the command's process is killed by a signal (no exit code at all)
    CommandKilledBySignal,
    PrefixlessDirective,
    UnusedTag,
    TempTxtppTarget,
    IncludeMissing,
    IncludeDirectory,
    IncludeNotUtf8,
    SourceNotUtf8,
    OutputPathOccupied,
    TempPathOccupied,
    /// verify only: the output of the file is stale
    VerifyTamper,
}

const DIRECTIVE_FAULTS: &[Fault] = &[Fault::FailingCommand, Fault::PrefixlessDirective, Fault::UnusedTag, Fault::TempTxtppTarget, Fault::IncludeMissing];
const ALL_FAULTS: &[Fault] = &[
    Fault::FailingCommand,
    Fault::CommandKilledBySignal,
    Fault::PrefixlessDirective,
    Fault::UnusedTag,
    Fault::TempTxtppTarget,
    Fault::IncludeMissing,
    Fault::IncludeDirectory,
    Fault::IncludeNotUtf8,
    Fault::SourceNotUtf8,
    Fault::OutputPathOccupied,
    Fault::TempPathOccupied,
];

#[derive(Debug, Clone, Serialize, Deserialize)]
pub enum Case {
    /// in-process, controlled or free schedule
    Directive {
        graph: GraphSpec,
        requested: Vec<usize>,
        mode: ModeS,
        file: usize,
        fault: Fault,
        /// inject before the file's first dependency directive (fails in the first pass)
        early: bool,
        threads: usize,
        sched: Sched,
    },
    /// write limit in a child process (library or CLI)
    WriteLimit {
        graph: GraphSpec,
        /// filler lines added to file 0 (to cross the 8 KiB buffer)
        filler: usize,
        needed: bool,
        /// limit selector: index into the candidate list (mapped monotonically)
        limit_sel: u16,
        cli: bool,
        threads: usize,
    },
    /// CLI exit status for a directive fault
    Cli { graph: GraphSpec, requested: Vec<usize>, mode: ModeS, file: usize, fault: Option<Fault> },
}

fn inject(project: &mut Project, g: &GraphSpec, file: usize, fault: Fault, early: bool) {
    let path = g.src_path(file);
    let FileData::Text(src) = project.files[&path].clone() else { return };
    let line = match fault {
        Fault::FailingCommand => "~TXTPP#run exit 3\n".to_string(),
        Fault::CommandKilledBySignal => "~TXTPP#run echo partial; kill -KILL $$\n".to_string(),
        Fault::PrefixlessDirective => "TXTPP#run echo nope\n".to_string(),
        Fault::UnusedTag => "TXTPP#tag NEVER_USED\n".to_string(),
        Fault::TempTxtppTarget => "~TXTPP#temp bad.txtpp\n~x\n".to_string(),
        Fault::IncludeMissing => "TXTPP#include does-not-exist.txt\n".to_string(),
        Fault::IncludeDirectory => "TXTPP#include d\n".to_string(),
        Fault::IncludeNotUtf8 => "TXTPP#include bad.bin\n".to_string(),
        Fault::TempPathOccupied => format!("~TXTPP#temp occupied{file}\n~x\n"),
        Fault::SourceNotUtf8 | Fault::OutputPathOccupied | Fault::VerifyTamper => String::new(),
    };
    let mut lines: Vec<&str> = src.split_inclusive('\n').collect();
    let pos = if early {
        lines.iter().position(|l| l.starts_with("TXTPP#include") || l.starts_with("TXTPP#after") || l.starts_with("-TXTPP#run")).unwrap_or(lines.len() - 1)
    } else {
        lines.len() - 1 // before "tail"
    };
    // the injected text line keeps the preceding directive from swallowing the fault line
    let sep = "fault follows\n";
    lines.insert(pos, &line);
    lines.insert(pos, sep);
    let new: String = lines.concat();
    if fault == Fault::SourceNotUtf8 {
        let mut b = new.into_bytes();
        let at = if early { 0 } else { b.len() };
        b.splice(at..at, [0xffu8, 0xfe, b'\n']);
        project.files.insert(path, FileData::from_bytes(b));
    } else {
        project.files.insert(path, FileData::Text(new));
    }
    if fault == Fault::IncludeNotUtf8 {
        let d = crate::gen::graph::dir_name(g.dirs.get(file).copied().unwrap_or(0));
        let p = if d.is_empty() { "bad.bin".to_string() } else { format!("{d}/bad.bin") };
        project.files.insert(p, FileData::Bytes(vec![b'a', 0xff, 0xfe, b'\n']));
    }
}

fn gen_case(c: &mut Choices) -> Case {
    let mut g = gen_graph(c, 1, 5, true, false);
    // the fault injector relies on the plain file layout
    g.empty.clear();
    g.raw_self.clear();
    g.rich = false;
    g.pre_marker.iter_mut().for_each(|b| *b = false);
    let k = 1 + c.below(g.n.min(2));
    let requested: Vec<usize> = (0..k).map(|_| c.below(g.n)).collect();
    match c.weighted(&[12, 3, 1]) {
        0 => {
            let mode = *c.pick(&[ModeS::Build, ModeS::Build, ModeS::Needed, ModeS::Verify, ModeS::Clean]);
            let fault = match mode {
                ModeS::Clean => *c.pick(DIRECTIVE_FAULTS),
                ModeS::Verify => {
                    if c.chance(1, 3) {
                        Fault::VerifyTamper
                    } else {
                        *c.pick(ALL_FAULTS)
                    }
                }
                _ => *c.pick(ALL_FAULTS),
            };
            let free = c.chance(1, 5);
            Case::Directive {
                file: c.below(g.n),
                fault,
                early: c.chance(1, 2),
                threads: if free { 1 + c.below(8) } else { *c.pick(&[2 * g.n + 3, 1, 2]) },
                sched: if free { Sched::Free } else { Sched::Stream((0..c.below(16)).map(|_| c.raw()).collect()) },
                graph: g,
                requested,
                mode,
            }
        }
        1 => Case::WriteLimit {
            graph: g,
            filler: if c.chance(1, 3) { 300 + c.below(600) } else { 0 },
            needed: c.chance(1, 3),
            limit_sel: c.raw(),
            cli: c.chance(1, 4),
            threads: 1 + c.below(4),
        },
        _ => Case::Cli {
            file: c.below(g.n),
            fault: if c.chance(2, 3) { Some(*c.pick(DIRECTIVE_FAULTS)) } else { None },
            mode: *c.pick(&[ModeS::Build, ModeS::Needed, ModeS::Verify]),
            graph: g,
            requested,
        },
    }
}

fn ctl_for(sched: &Sched, threads: usize) -> Arc<Ctl> {
    Arc::new(match sched {
        Sched::Free => Ctl::free(),
        Sched::Stream(s) => Ctl::controlled(threads, Box::new(StreamChooser { data: s.clone(), pos: 0, taken: vec![] })),
        Sched::Prefix(p) => Ctl::controlled(threads, Box::new(crate::ctl::PrefixChooser { prefix: p.clone(), taken: vec![] })),
    })
}

fn opts_for(g: &GraphSpec, requested: &[usize], mode: ModeS, threads: usize) -> RunOpts {
    RunOpts {
        mode,
        trailing_newline: true,
        threads,
        recursive: false,
        inputs: requested.iter().map(|i| g.out_path(*i)).collect(),
        shell: String::new(),
    }
}

fn check_directive(case: &Case, st: &mut Stats) -> Check {
    let Case::Directive { graph: g, requested, mode, file, fault, early, threads, sched } = case else { unreachable!() };
    let control = g.render();
    let su = materialise(&control);
    let mut opts = opts_for(g, requested, *mode, *threads);
    if *fault == Fault::OutputPathOccupied {
        // name the sources: an output name occupied by a directory would (legitimately) be
        // taken as a directory to scan
        opts.inputs = requested.iter().map(|i| g.src_path(*i)).collect();
    }
    let ex = su.expect(&control, &opts.with_mode(ModeS::Build));
    if !matches!(ex.verdict, Verdict::Ok) {
        st.infra.push(format!("control project is not well-formed for the model: {:?}", ex.verdict));
        return Ok(());
    }
    let closure = g.closure(requested);
    let required = match mode {
        ModeS::Clean => requested.contains(file),
        _ => closure.contains(file),
    };
    let mut faulty = control.clone();
    inject(&mut faulty, g, *file, *fault, *early);
    let ftree = faulty.materialise(&su.root, &su.sc.mark_str());
    // pre-state shared by the control twin and the faulty run
    let prepare = |with_fault: bool| {
        su.sc.reset();
        su.write(&control);
        if matches!(mode, ModeS::Verify | ModeS::Clean) {
            // outputs are present (built from the control sources)
            let b = runner::run_free(&su.sc.root, &opts_for(g, &(0..g.n).collect::<Vec<_>>(), ModeS::Build, 2));
            assert!(b.ok || true);
        }
        if with_fault {
            fsx::write_tree(&su.sc.root, &ftree, &faulty.dirs);
            match fault {
                Fault::OutputPathOccupied => {
                    let p = su.sc.root.join(g.out_path(*file));
                    let _ = std::fs::remove_file(&p);
                    let _ = std::fs::create_dir_all(&p);
                }
                Fault::TempPathOccupied => {
                    let d = crate::gen::graph::dir_name(g.dirs.get(*file).copied().unwrap_or(0));
                    let _ = std::fs::create_dir_all(su.sc.root.join(d).join(format!("occupied{file}")));
                }
                Fault::VerifyTamper => {
                    let p = su.sc.root.join(g.out_path(*file));
                    let mut b = std::fs::read(&p).unwrap_or_default();
                    b.extend_from_slice(b"stale\n");
                    let _ = std::fs::write(&p, b);
                }
                _ => {}
            }
        }
    };
    // control twin
    prepare(false);
    let c_out = runner::run(&su.sc.root, &opts, ctl_for(sched, *threads));
    if let Some(i) = &c_out.report.infra {
        st.infra.push(i.clone());
        return Ok(());
    }
    if !c_out.ok {
        st.class("control_twin_failed(not a C04 matter)");
        return Ok(());
    }
    // faulty run
    prepare(true);
    let out = runner::run(&su.sc.root, &opts, ctl_for(sched, *threads));
    if let Some(i) = &out.report.infra {
        st.infra.push(i.clone());
        return Ok(());
    }
    let position = if requested.contains(file) {
        "requested"
    } else if closure.contains(file) {
        "dependency"
    } else {
        "unrelated"
    };
    st.class(&format!("{fault:?}/{mode:?}/{position}"));
    if required && closure.len() > 1 {
        st.nontrivial_hash(&serde_json::to_string(case).unwrap());
    }
    st.sample(|| serde_json::json!({"case": case, "faulty_file": g.src_path(*file), "position": position, "observed_ok": out.ok}), 3);
    let expect_err = match mode {
        ModeS::Clean => false, // clean ignores directive errors (only those are generated for clean)
        _ => required,
    };
    if !out.ok && CYCLE_MISREPORT_IS_VIOLATION.with(|c| c.get()) {
        // C05: "a project without cycles never gets a circular-dependency failure" - also when
        // the run fails for another reason (the graph is acyclic by construction)
        let e = out.err.clone().unwrap_or_default();
        if e.contains("Circular dependencies") {
            return viol(
                "C05 acyclic-failure-reported-as-cycle",
                format!(
                    "{} has the fault {fault:?} ({mode:?}); the project has no dependency cycle, but the run failed with a circular-dependency report instead of the real error: {}\n  schedule {:?}",
                    g.src_path(*file),
                    super::common::short_err(&out.err),
                    out.report.schedule
                ),
            );
        }
        return Ok(());
    }
    if expect_err && out.ok {
        return viol(
            &format!("C04 false-success {fault:?} {mode:?}"),
            format!(
                "{} ({position}, {}) has the fault {fault:?} but {mode:?} of {:?} reported success\n  schedule {:?}",
                g.src_path(*file),
                if *early { "before its first dependency directive" } else { "after its dependency directives" },
                opts.inputs,
                out.report.schedule
            ),
        );
    }
    if out.ok && matches!(mode, ModeS::Build | ModeS::Needed) {
        // success reported: every required output complete and correct
        let after = fsx::read_tree(&su.sc.root);
        for i in &closure {
            let src = g.src_path(*i);
            if *i == *file {
                continue; // its content legitimately differs from the control (not required here)
            }
            if let Some((p, want, _)) = ex.ok_sources.get(&src) {
                if after.get(p).map(|b| b.as_slice()) != Some(want.as_bytes()) {
                    return viol(
                        &format!("C04 success-with-incomplete-output {mode:?}"),
                        format!("success was reported but {p} is {}", after.get(p).map(|b| show_bytes(b)).unwrap_or("missing".into())),
                    );
                }
            }
        }
    }
    Ok(())
}

fn add_filler(project: &mut Project, g: &GraphSpec, n: usize) {
    if n == 0 {
        return;
    }
    let path = g.src_path(0);
    if let Some(FileData::Text(s)) = project.files.get(&path).cloned() {
        let mut t = s.trim_end_matches("tail0\n").to_string();
        for i in 0..n {
            t.push_str(&format!("filler line number {i:05}\n"));
        }
        t.push_str("tail0\n");
        project.files.insert(path, FileData::Text(t));
    }
}

fn check_limit(case: &Case, st: &mut Stats) -> Check {
    let Case::WriteLimit { graph: g, filler, needed, limit_sel, cli, threads } = case else { unreachable!() };
    let mut g = g.clone();
    g.no_solo = true;
    let mut project = g.render();
    // no marker commands here: the marker log is a file, too
    for (_, v) in project.files.iter_mut() {
        if let FileData::Text(s) = v {
            *s = s.lines().filter(|l| !l.contains(">> @MARK@")).map(|l| format!("{l}\n")).collect();
        }
    }
    add_filler(&mut project, &g, *filler);
    let su = materialise(&project);
    su.write(&project);
    let mode = if *needed { ModeS::Needed } else { ModeS::Build };
    let all: Vec<usize> = (0..g.n).collect();
    let opts = opts_for(&g, &all, mode, *threads);
    // reference without limit
    let r0 = runner::run_free(&su.sc.root, &opts.with_mode(ModeS::Build));
    if !r0.ok {
        st.class("reference_failed");
        return Ok(());
    }
    let g0: Bytes = su.generated();
    su.wipe_generated();
    let mut lens: Vec<u64> = g0.values().map(|b| b.len() as u64).collect();
    lens.sort();
    lens.dedup();
    let maxlen = *lens.last().unwrap_or(&0);
    let mut cands: Vec<u64> = vec![0, 1];
    for l in &lens {
        cands.extend([l.saturating_sub(1), *l, l + 1]);
    }
    cands.extend([8191, 8192, 8193, maxlen / 2, maxlen + 100]);
    cands.sort();
    cands.dedup();
    let limit = cands[((*limit_sel as usize) * cands.len()) >> 16];
    let expect_err = maxlen > limit;
    let tl = Duration::from_secs(60);
    let ok = if *cli {
        let ex = child::run_cli(&su.sc.root, &child::cli_args(&opts), &[], Some(limit), tl);
        if ex.timed_out {
            st.infra.push("CLI under RLIMIT_FSIZE timed out".into());
            return Ok(());
        }
        match ex.code {
            Some(0) => true,
            Some(1) => false,
            other => {
                return viol(
                    "C04 cli-abnormal-exit",
                    format!("write limit {limit}: the txtpp binary ended with status {other:?} signal {:?}: {}", ex.signal, ex.stderr.chars().take(300).collect::<String>()),
                )
            }
        }
    } else {
        let spec = LibSpec { cwd: su.root.clone(), base: ".".into(), opts: opts.clone() };
        let (ex, res) = child::run_lib(&spec, Some(limit), tl);
        match res {
            Some(r) => r.ok,
            None => {
                st.infra.push(format!("child-run gave no result under RLIMIT_FSIZE {limit}: code {:?} signal {:?} timed out {}", ex.code, ex.signal, ex.timed_out));
                return Ok(());
            }
        }
    };
    st.class(&format!("write_limit/{}/{}/{}", if *cli { "cli" } else { "lib" }, if *needed { "needed" } else { "build" }, if expect_err { "too_small" } else { "sufficient" }));
    if limit > 0 && limit < maxlen {
        st.nontrivial_hash(&serde_json::to_string(case).unwrap());
    }
    st.sample(|| serde_json::json!({"write_limit_bytes": limit, "longest_generated_file": maxlen, "expect_error": expect_err, "observed_ok": ok, "files": g0.keys().collect::<Vec<_>>()}), 3);
    let g1: Bytes = su.generated();
    if ok && expect_err {
        return viol(
            &format!("C04 false-success write-limit {}", if *needed { "needed" } else { "build" }),
            format!("writes beyond {limit} bytes fail (RLIMIT_FSIZE) and the longest generated file needs {maxlen} bytes, but the run reported success"),
        );
    }
    if ok {
        for (p, want) in &g0 {
            if g1.get(p) != Some(want) {
                return viol(
                    "C04 success-with-incomplete-output write-limit",
                    format!("success was reported under write limit {limit} but {p} has {} of {} bytes", g1.get(p).map(|b| b.len()).unwrap_or(0), want.len()),
                );
            }
        }
    }
    Ok(())
}

fn check_cli(case: &Case, st: &mut Stats) -> Check {
    let Case::Cli { graph: g, requested, mode, file, fault } = case else { unreachable!() };
    let control = g.render();
    let mut project = control.clone();
    if let Some(f) = fault {
        inject(&mut project, g, *file, *f, false);
    }
    let su = materialise(&control);
    su.write(&control);
    let opts = opts_for(g, requested, *mode, 4);
    if *mode == ModeS::Verify {
        let _ = runner::run_free(&su.sc.root, &opts_for(g, &(0..g.n).collect::<Vec<_>>(), ModeS::Build, 2));
    }
    fsx::write_tree(&su.sc.root, &project.materialise(&su.root, &su.sc.mark_str()), &project.dirs);
    let required = fault.is_some() && g.closure(requested).contains(file);
    let ex = child::run_cli(&su.sc.root, &child::cli_args(&opts), &[], None, Duration::from_secs(60));
    if ex.timed_out {
        st.infra.push("CLI timed out".into());
        return Ok(());
    }
    st.class(&format!("cli/{mode:?}/{}", if required { "faulty_required" } else { "no_required_fault" }));
    st.nontrivial_hash(&serde_json::to_string(case).unwrap());
    match (ex.code, required) {
        (Some(0), true) => viol(
            &format!("C04 cli-exit-zero-on-failure {:?}", fault.unwrap()),
            format!("{} has the fault {:?} and is required, but the txtpp binary exited with status 0", g.src_path(*file), fault.unwrap()),
        ),
        (Some(0), false) | (Some(1), _) => Ok(()),
        (other, _) => viol("C04 cli-abnormal-exit", format!("the txtpp binary ended with status {other:?} signal {:?}", ex.signal)),
    }
}

pub fn check(case: &Case, st: &mut Stats) -> Check {
    match case {
        Case::Directive { .. } => check_directive(case, st),
        Case::WriteLimit { .. } => check_limit(case, st),
        Case::Cli { .. } => check_cli(case, st),
    }
}

fn reduce(case: &Case) -> Vec<Case> {
    let mut v = vec![];
    match case {
        Case::Directive { graph, requested, mode, file, fault, early, threads, sched } => {
            for i in 0..graph.edges.len() {
                let mut g = graph.clone();
                g.edges.remove(i);
                v.push(Case::Directive { graph: g, requested: requested.clone(), mode: *mode, file: *file, fault: *fault, early: *early, threads: *threads, sched: sched.clone() });
            }
            if let Sched::Stream(s) = sched {
                if !s.is_empty() {
                    v.push(Case::Directive { graph: graph.clone(), requested: requested.clone(), mode: *mode, file: *file, fault: *fault, early: *early, threads: *threads, sched: Sched::Stream(vec![]) });
                }
            }
        }
        Case::WriteLimit { graph, filler, needed, limit_sel, cli, threads } => {
            for i in 0..graph.edges.len() {
                let mut g = graph.clone();
                g.edges.remove(i);
                v.push(Case::WriteLimit { graph: g, filler: *filler, needed: *needed, limit_sel: *limit_sel, cli: *cli, threads: *threads });
            }
        }
        Case::Cli { .. } => {}
    }
    v
}

impl Prop for C04 {
    fn meta(&self) -> PropMeta {
        PropMeta {
            id: "C04",
            level: "fault_enumeration",
            rule: "cases = dependency DAG of 1-5 files x requested subset x ONE fault in one file x position of that file (requested / dependency / unrelated) x place in the file (before its first dependency directive => fails in the first pass; after => second pass) x mode x completion order (random controlled schedules via the hooks, pool sizes {1,2,full}, or free-running). Fault kinds: failing command, prefix-less multi-line directive, unused tag, .txtpp temp target, missing / directory / non-UTF-8 include, non-UTF-8 source, directory occupying the output path, directory occupying a temp target, stale output under verify; clean gets directive faults only (it must ignore them). Write faults: child processes (library and CLI) under RLIMIT_FSIZE = N with SIGXFSZ ignored, N drawn around the lengths of the generated files (0, 1, len-1, len, len+1, 8191..8193, half), some outputs > 8 KiB. Oracle: the run must fail iff the faulty file is required in that mode (write limit: iff some generated file is longer than N); every faulty run has a control twin (same project, mode, pre-state, schedule, no fault) that must succeed before the faulty verdict is judged; whenever success is reported every required output equals the model / the unlimited reference; CLI exit status 0 iff success. Non-trivial = faulty file required and not the only file, or 0 < N < longest file; distinct by hash.",
            assumptions: vec!["disk-full is approximated by RLIMIT_FSIZE (EFBIG on write), not ENOSPC on close", "hooks: feature `verif` for the schedule dimension only; no fault-injection hook"],
            hang_is_violation: true,
            needs_cli: true,
        }
    }
    fn worker(&self, ctx: &mut WorkerCtx) {
        let total = if ctx.quick { 10_000 } else { 250_000 };
        let n = ctx.share(total);
        ctx.drive(1, n, 200, &gen_case, &check, &reduce);
    }
    fn replay(&self, case: &Value) -> Check {
        let case: Case = serde_json::from_value(case.clone()).map_err(|e| (format!("bad case: {e}"), "bad-case".to_string()))?;
        check(&case, &mut Stats::default())
    }
}
