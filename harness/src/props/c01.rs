//! C01 — output conforms to the documented directive semantics (DESIGN §5 C01).

use super::{reduce_project, show_bytes, viol, Check, Prop, PropMeta};
use crate::fsx::{self, Scratch};
use crate::gen::project::{gen_project, GenParams, Project};
use crate::gen::Choices;
use crate::model::{Model, ModelCfg, Verdict};
use crate::runner::{self, ModeS, RunOpts};
use crate::wctx::{Stats, WorkerCtx};
use serde::{Deserialize, Serialize};
use serde_json::Value;
use std::collections::BTreeSet;

pub struct C01;

#[derive(Debug, Clone, Serialize, Deserialize)]
pub struct Case {
    pub project: Project,
    pub opts: RunOpts,
    /// repository fixture: expected verdict and golden bytes of some outputs; both the reference
    /// model (when the fixture is inside its command vocabulary) and txtpp must reproduce them
    #[serde(default, skip_serializing_if = "Option::is_none")]
    pub golden: Option<Golden>,
}

#[derive(Debug, Clone, Serialize, Deserialize)]
pub struct Golden {
    pub expect_ok: bool,
    pub files: std::collections::BTreeMap<String, crate::gen::project::FileData>,
}

pub fn gen_inputs(c: &mut Choices, project: &Project) -> (Vec<String>, bool) {
    let sources = project.sources();
    if sources.is_empty() || !c.chance(2, 5) {
        return (vec![".".to_string()], true);
    }
    let mut inputs = vec![];
    let n = 1 + c.below(sources.len().min(3));
    for _ in 0..n {
        let s = &sources[c.below(sources.len())];
        if c.chance(1, 2) {
            inputs.push(crate::model::names::output_of(s).unwrap());
        } else {
            inputs.push(s.clone());
        }
    }
    (inputs, c.chance(1, 4))
}

fn gen_case(c: &mut Choices) -> Case {
    let project = gen_project(c, &GenParams::default());
    let (inputs, recursive) = gen_inputs(c, &project);
    let opts = RunOpts {
        mode: ModeS::Build,
        trailing_newline: !c.chance(1, 4),
        threads: 1 + c.below(8),
        recursive,
        inputs,
        shell: String::new(),
    };
    Case { project, opts, golden: None }
}

pub fn check(case: &Case, st: &mut Stats) -> Check {
    let sc = Scratch::new();
    let root = sc.root_str();
    let tree = case.project.materialise(&root, &sc.mark_str());
    let cfg = ModelCfg {
        root_abs: root.clone(),
        trailing_newline: case.opts.trailing_newline,
        marker_dir: Some(sc.mark_str()),
    };
    let mut model = Model::new(&tree, &case.project.dirs, &cfg);
    let ex = model.build(&case.opts.inputs, case.opts.recursive);
    if let Some(g) = &case.golden {
        // anchor: the model against the repository's golden files (no txtpp involved) ...
        match &ex.verdict {
            Verdict::Excluded(r) => println!("golden fixture outside the model's vocabulary ({r}); comparing txtpp only"),
            v => {
                if matches!(v, Verdict::Ok) != g.expect_ok {
                    return viol("C01 model-contradicts-fixture", format!("the reference model says {v:?} but the repository fixture expects ok={}", g.expect_ok));
                }
                for (p, want) in &g.files {
                    if ex.files.get(p).map(|s| s.as_bytes()) != Some(want.bytes()) {
                        return viol(
                            "C01 model-contradicts-fixture",
                            format!("the reference model disagrees with the golden file for {p}:\n  golden {}\n  model  {:?}", show_bytes(want.bytes()), ex.files.get(p)),
                        );
                    }
                }
                println!("golden fixture reproduced by the reference model");
            }
        }
        // ... and txtpp against them
        fsx::write_tree(&sc.root, &tree, &case.project.dirs);
        let out = runner::run_free(&sc.root, &case.opts);
        if out.ok != g.expect_ok {
            return viol("C01 fixture-verdict", format!("fixture expects ok={} but txtpp returned ok={}: {}", g.expect_ok, out.ok, super::common::short_err(&out.err)));
        }
        let after = fsx::read_tree(&sc.root);
        for (p, want) in &g.files {
            if after.get(p).map(|b| b.as_slice()) != Some(want.bytes()) {
                return viol("C01 fixture-bytes", format!("{p} differs from the golden file:\n  golden {}\n  actual {}", show_bytes(want.bytes()), after.get(p).map(|b| show_bytes(b)).unwrap_or("missing".into())));
            }
        }
        return Ok(());
    }
    if let Verdict::Excluded(r) = &ex.verdict {
        st.exclude(r);
        return Ok(());
    }
    fsx::write_tree(&sc.root, &tree, &case.project.dirs);
    let _ = std::env::set_current_dir("/");
    let out = runner::run_free(&sc.root, &case.opts);
    if let Some(i) = &out.report.infra {
        st.infra.push(i.clone());
        return Ok(());
    }
    // classification
    let mut interesting = false;
    for f in &ex.features {
        st.class(f);
        if matches!(
            *f,
            "tail_join" | "multi_line" | "tag_inject" | "dep" | "crlf_mix_source" | "le_normalised" | "indent" | "dir_at_eof"
        ) {
            interesting = true;
        }
    }
    let nontrivial = match &ex.verdict {
        Verdict::Err(k, _) => {
            st.class(&format!("expected_error:{k:?}"));
            true
        }
        _ => ex.features.contains("exec_output") && interesting,
    };
    st.class(if matches!(ex.verdict, Verdict::Ok) { "expect_ok" } else { "expect_err" });
    if nontrivial {
        st.nontrivial_hash(&(serde_json::to_string(&case.project).unwrap(), serde_json::to_string(&case.opts).unwrap()));
    }
    st.sample(
        || serde_json::json!({"case": case, "expected": format!("{:?}", ex.verdict), "observed_ok": out.ok}),
        3,
    );
    match &ex.verdict {
        Verdict::Err(k, f) => {
            if out.ok {
                return viol(
                    &format!("C01 false-success {k:?}"),
                    format!("the documented semantics prescribe an error ({k:?} in {f}) but the build succeeded"),
                );
            }
        }
        Verdict::Ok => {
            if !out.ok {
                return viol(
                    "C01 spurious-failure",
                    format!(
                        "the documented semantics prescribe success but the build failed: {}",
                        super::common::short_err(&out.err)
                    ),
                );
            }
            let after = fsx::read_tree(&sc.root);
            for (p, want) in &ex.files {
                match after.get(p) {
                    None => return viol("C01 missing-file", format!("generated file {p} is missing after a successful build")),
                    Some(got) if got != want.as_bytes() => {
                        return viol(
                            "C01 wrong-bytes",
                            format!(
                                "generated file {p} differs from the documented semantics:\n  expected {}\n  actual   {}",
                                show_bytes(want.as_bytes()),
                                show_bytes(got)
                            ),
                        )
                    }
                    _ => {}
                }
            }
            let allowed: BTreeSet<&String> = tree.keys().chain(ex.files.keys()).collect();
            for p in after.keys() {
                if !allowed.contains(p) {
                    return viol("C01 unexpected-file", format!("unexpected generated file {p}"));
                }
            }
            for (p, b) in &tree {
                if after.get(p) != Some(b) {
                    return viol("C01 input-changed", format!("input file {p} was modified or removed by the build"));
                }
            }
        }
        Verdict::Excluded(_) => unreachable!(),
    }
    Ok(())
}

fn reduce(case: &Case) -> Vec<Case> {
    let mut v: Vec<Case> = reduce_project(&case.project)
        .into_iter()
        .map(|p| Case { project: p, opts: case.opts.clone(), golden: None })
        .collect();
    if case.opts.threads != 1 {
        let mut c = case.clone();
        c.opts.threads = 1;
        v.push(c);
    }
    if case.opts.inputs != vec![".".to_string()] {
        let mut c = case.clone();
        c.opts.inputs = vec![".".to_string()];
        c.opts.recursive = true;
        v.push(c);
    }
    v
}

impl Prop for C01 {
    fn meta(&self) -> PropMeta {
        PropMeta {
            id: "C01",
            level: "exploration",
            rule: "cases = generated multi-file projects inside DESIGN §4.3 (choice-sequence generator driven by proptest) x options (trailing newline, 1-8 threads, input selection); oracle = reference model of the README semantics, both directions (model Ok => build Ok and every output/temp byte-equal, nothing else created; model Err => build Err). Non-trivial = expected error, or at least one executed directive producing/capturing output together with one of {tail join, multi-line continuation, tag injection, dependency through a .txtpp source, LF/CRLF mix, indentation, directive at EOF}; distinct by hash of rendered tree + options. Out-of-domain cases are excluded by the model and counted under `excluded`.",
            assumptions: vec![
                "the reference model (harness/src/model) is a faithful transcription of README + fixtures; it is anchored by the golden fixtures in regress/C01 and by mutation runs",
                "commands come from a closed vocabulary interpreted by the model's mini shell; /bin/sh is dash",
            ],
            hang_is_violation: false,
            needs_cli: false,
        }
    }

    fn worker(&self, ctx: &mut WorkerCtx) {
        let total = if ctx.quick { 40_000 } else { 1_000_000 };
        let n = ctx.share(total);
        ctx.drive(1, n, 700, &gen_case, &check, &reduce);
    }

    fn replay(&self, case: &Value) -> Check {
        let case: Case = serde_json::from_value(case.clone()).map_err(|e| (format!("bad case: {e}"), "bad-case".to_string()))?;
        let mut st = Stats::default();
        check(&case, &mut st)
    }
}
