//! One module per property.

use crate::gen::project::{FileData, Project};
use crate::wctx::WorkerCtx;
use serde_json::Value;

pub mod c01;
pub mod c02_03_05;
pub mod graphs;
pub mod c04;
pub mod c06;
pub mod c07;
pub mod c08;
pub mod c09;
pub mod c10;
pub mod c11;
pub mod c12;
pub mod c13;
pub mod c14;
pub mod c15;
pub mod c16;
pub mod c17;
pub mod c18;
pub mod common;

pub struct PropMeta {
    pub id: &'static str,
    pub level: &'static str,
    pub rule: &'static str,
    pub assumptions: Vec<&'static str>,
    /// the property's statement says the run returns: a reproducible hang is a violation
    pub hang_is_violation: bool,
    pub needs_cli: bool,
}

/// Err((message, signature)) = violation
pub type Check = Result<(), (String, String)>;

pub trait Prop: Send {
    fn meta(&self) -> PropMeta;
    fn worker(&self, ctx: &mut WorkerCtx);
    fn replay(&self, case: &Value) -> Check;
}

pub fn get(id: &str) -> Option<Box<dyn Prop>> {
    Some(match id {
        "C01" => Box::new(c01::C01),
        "C02" => Box::new(c02_03_05::GraphProp(graphs::Which::C02)),
        "C03" => Box::new(c02_03_05::GraphProp(graphs::Which::C03)),
        "C04" => Box::new(c04::C04),
        "C05" => Box::new(c02_03_05::GraphProp(graphs::Which::C05)),
        "C06" => Box::new(c06::C06),
        "C07" => Box::new(c07::C07),
        "C08" => Box::new(c08::C08),
        "C09" => Box::new(c09::C09),
        "C10" => Box::new(c10::C10),
        "C11" => Box::new(c11::C11),
        "C12" => Box::new(c12::C12),
        "C13" => Box::new(c13::C13),
        "C14" => Box::new(c14::C14),
        "C15" => Box::new(c15::C15),
        "C16" => Box::new(c16::C16),
        "C17" => Box::new(c17::C17),
        "C18" => Box::new(c18::C18),
        _ => return None,
    })
}

pub const ALL: &[&str] = &["C01"];

pub fn viol(sig: &str, msg: String) -> Check {
    Err((msg, sig.to_string()))
}

/// Structural reduction candidates for a project: drop a file, drop a line.
pub fn reduce_project(p: &Project) -> Vec<Project> {
    let mut out = vec![];
    for k in p.files.keys() {
        let mut q = p.clone();
        q.files.remove(k);
        out.push(q);
    }
    for (k, v) in &p.files {
        if let FileData::Text(s) = v {
            let lines: Vec<&str> = s.split_inclusive('\n').collect();
            if lines.len() > 40 {
                continue;
            }
            for i in 0..lines.len() {
                let mut t = String::new();
                for (j, l) in lines.iter().enumerate() {
                    if j != i {
                        t.push_str(l);
                    }
                }
                let mut q = p.clone();
                q.files.insert(k.clone(), FileData::Text(t));
                out.push(q);
            }
        }
    }
    for d in &p.dirs {
        let mut q = p.clone();
        q.dirs.remove(d);
        out.push(q);
    }
    out
}

pub fn show_bytes(b: &[u8]) -> String {
    let s = String::from_utf8_lossy(b);
    let s: String = s.chars().take(400).collect();
    format!("{s:?}")
}
