//! Shared machinery for the schedule-controlled graph properties C02 / C03 / C05:
//! case type, execution under a chosen schedule, DFS over all schedules, the oracles.

use super::common::{materialise, short_err, Setup};
use super::{show_bytes, viol, Check};
use crate::ctl::{next_prefix, Ctl, Event, Pass, PrefixChooser, StreamChooser};
use crate::fsx;
use crate::gen::graph::GraphSpec;
use crate::gen::project::{Project, ROOT};
use crate::model::{Expect, Verdict};
use crate::runner::{self, ModeS, Outcome, RunOpts};
use crate::wctx::Stats;
use serde::{Deserialize, Serialize};
use std::collections::{BTreeMap, BTreeSet};
use std::sync::Arc;

#[derive(Debug, Clone, PartialEq, Eq, Hash, Serialize, Deserialize)]
pub enum Sched {
    /// controlled: follow these choice indices, then always the first gated task
    Prefix(Vec<usize>),
    /// controlled: choices from a stream
    Stream(Vec<u16>),
    /// real concurrency, no gates
    Free,
}

#[derive(Debug, Clone, PartialEq, Eq, Hash, Serialize, Deserialize)]
pub struct GraphCase {
    pub graph: GraphSpec,
    /// input strings (may contain @ROOT@)
    pub inputs: Vec<String>,
    pub recursive: bool,
    /// every output path pre-seeded with a distinct stale text
    pub stale: bool,
    pub threads: usize,
    pub sched: Sched,
    /// run in --needed mode (same expected results as a normal build)
    #[serde(default)]
    pub needed: bool,
    /// a first run of the same process over the same paths takes place while this file's source
    /// does not exist yet; its result is discarded
    #[serde(default)]
    pub late: Option<usize>,
}

#[derive(Clone, Copy, PartialEq, Eq, Debug)]
pub enum Which {
    C02,
    C03,
    C05,
}

pub struct GraphRun {
    pub out: Outcome,
    pub ex: Expect,
    pub after: BTreeMap<String, Vec<u8>>,
    pub markers: BTreeMap<String, u32>,
}

pub struct Prepared {
    pub su: Setup,
    pub project: Project,
    pub ex: Expect,
    pub opts: RunOpts,
}

pub fn prepare(case: &GraphCase) -> Prepared {
    let project = case.graph.render();
    let su = materialise(&project);
    let opts = RunOpts {
        mode: if case.needed { ModeS::Needed } else { ModeS::Build },
        trailing_newline: true,
        threads: case.threads,
        recursive: case.recursive,
        inputs: case.inputs.iter().map(|s| s.replace(ROOT, &su.root)).collect(),
        shell: String::new(),
    };
    let ex = su.expect(&project, &opts);
    Prepared { su, project, ex, opts }
}

/// (re)create the tree and run once under the case's schedule
pub fn execute(case: &GraphCase, pr: &Prepared) -> GraphRun {
    pr.su.sc.reset();
    pr.su.write(&pr.project);
    if case.stale {
        for i in 0..case.graph.n {
            let p = pr.su.sc.root.join(case.graph.out_path(i));
            let _ = std::fs::write(p, format!("STALE-OUTPUT-OF-f{i}\n"));
        }
    }
    if let Some(i) = case.late.filter(|i| *i < case.graph.n) {
        let _ = std::fs::remove_file(pr.su.sc.root.join(case.graph.src_path(i)));
        let _ = runner::run(&pr.su.sc.root, &pr.opts, Arc::new(Ctl::free()));
        pr.su.sc.reset();
        pr.su.write(&pr.project);
        if case.stale {
            for i in 0..case.graph.n {
                let p = pr.su.sc.root.join(case.graph.out_path(i));
                let _ = std::fs::write(p, format!("STALE-OUTPUT-OF-f{i}\n"));
            }
        }
    }
    let ctl = match &case.sched {
        Sched::Free => Ctl::free(),
        Sched::Prefix(p) => Ctl::controlled(case.threads, Box::new(PrefixChooser { prefix: p.clone(), taken: vec![] })),
        Sched::Stream(s) => Ctl::controlled(case.threads, Box::new(StreamChooser { data: s.clone(), pos: 0, taken: vec![] })),
    };
    let out = runner::run(&pr.su.sc.root, &pr.opts, Arc::new(ctl));
    GraphRun {
        out,
        ex: pr.ex.clone(),
        after: fsx::read_tree(&pr.su.sc.root),
        markers: pr.su.sc.markers(),
    }
}

/// path of a task relative to the root, with `.` and `..` resolved lexically: two tasks for the
/// same file reached through different spellings get the same label
fn task_label(root: &str, path: &str) -> String {
    let rel = path.strip_prefix(root).map(|p| p.trim_start_matches('/').to_string()).unwrap_or_else(|| path.to_string());
    let mut parts: Vec<&str> = vec![];
    for c in rel.split('/') {
        match c {
            "" | "." => {}
            ".." => {
                parts.pop();
            }
            x => parts.push(x),
        }
    }
    parts.join("/")
}

/// the oracles; `which` selects the assertions that belong to the property
pub fn judge(case: &GraphCase, pr: &Prepared, run: &GraphRun, which: Which) -> Check {
    let root = format!("{}/", pr.su.root);
    judge_inner(case, pr, run, which).map_err(|(m, s)| (m.replace(&root, ""), s))
}

fn judge_inner(case: &GraphCase, pr: &Prepared, run: &GraphRun, which: Which) -> Check {
    let g = &case.graph;
    let out = &run.out;
    if let Some(i) = &out.report.infra {
        return Err((format!("infrastructure: {i}"), "infra".into()));
    }
    let id = format!("{which:?}");
    let reaches = g.reaches_cycle();
    // required sources according to the model (syntactic closure of the inputs)
    let required: BTreeSet<String> = run.ex.may_process.clone();
    let cyclic_required: Vec<&String> = required
        .iter()
        .filter(|s| (0..g.n).any(|i| g.src_path(i) == **s && reaches[i]))
        .collect();
    let expect_cycle = !cyclic_required.is_empty();
    match &run.ex.verdict {
        Verdict::Excluded(r) => return Err((format!("graph case outside the model's domain: {r}"), "infra".into())),
        Verdict::Err(k, _) => {
            if !expect_cycle && !matches!(k, crate::model::ErrKind::InputNoSource | crate::model::ErrKind::InputMissing) {
                return Err((format!("model/graph disagreement: model says {k:?} but no cycle is reachable"), "infra".into()));
            }
        }
        Verdict::Ok => {
            if expect_cycle {
                return Err(("model/graph disagreement: cycle reachable but the model says Ok".into(), "infra".into()));
            }
        }
    }
    let input_error = matches!(&run.ex.verdict, Verdict::Err(k, _) if matches!(k, crate::model::ErrKind::InputNoSource | crate::model::ErrKind::InputMissing));

    // --- termination (C03, C05): decided logically by the controller
    if matches!(which, Which::C03 | Which::C05) {
        if let Some(m) = out.misbehaved() {
            return viol(&format!("{id} does-not-return"), format!("{m}\n  schedule {:?}", out.report.schedule));
        }
    }

    // --- verdict
    match which {
        Which::C05 => {
            if expect_cycle && out.ok {
                return viol(
                    "C05 cycle-not-reported",
                    format!(
                        "required files {cyclic_required:?} can reach a dependency cycle but the run reported success\n  schedule {:?}",
                        out.report.schedule
                    ),
                );
            }
            if !expect_cycle && !input_error && !out.ok {
                return viol(
                    "C05 spurious-failure",
                    format!(
                        "no dependency cycle is reachable but the run failed: {}\n  schedule {:?}",
                        short_err(&out.err),
                        out.report.schedule
                    ),
                );
            }
        }
        Which::C03 => {
            if out.ok && (expect_cycle || input_error) {
                return viol(
                    "C03 success-with-incomplete-files",
                    format!("the run reported success although {cyclic_required:?} cannot be completed\n  schedule {:?}", out.report.schedule),
                );
            }
        }
        Which::C02 => {}
    }

    // --- outputs
    let check_output = |src: &String, sig: &str| -> Check {
        let Some((path, want, _)) = run.ex.ok_sources.get(src) else { return Ok(()) };
        match run.after.get(path) {
            None => viol(&format!("{id} {sig}-missing"), format!("output {path} is missing\n  schedule {:?}", out.report.schedule)),
            Some(got) if got != want.as_bytes() => viol(
                &format!("{id} {sig}-wrong"),
                format!(
                    "output {path} differs from one-at-a-time processing in dependency order:\n  expected {}\n  actual   {}\n  schedule {:?}",
                    show_bytes(want.as_bytes()),
                    show_bytes(got),
                    out.report.schedule
                ),
            ),
            _ => Ok(()),
        }
    };
    if out.ok {
        // success: every required source complete and correct (C02: fresh, never stale/partial)
        for src in &required {
            check_output(src, "output")?;
        }
    } else if which == Which::C05 && expect_cycle {
        // failure because of a cycle: the acyclic part is still built correctly
        for src in &required {
            check_output(src, "bystander")?;
        }
    }

    // --- history invariants on the hook trace
    let root = &pr.su.root;
    let mut spawns: BTreeMap<(String, Pass), Vec<u64>> = BTreeMap::new();
    let mut pos_begin: BTreeMap<u64, usize> = BTreeMap::new();
    let mut pos_end: BTreeMap<u64, usize> = BTreeMap::new();
    for (i, e) in out.report.trace.iter().enumerate() {
        match e {
            Event::Spawn(id, path, pass) => spawns.entry((task_label(root, path), *pass)).or_default().push(*id),
            Event::Begin(id) => {
                pos_begin.insert(*id, i);
            }
            Event::End(id, _) => {
                pos_end.insert(*id, i);
            }
            _ => {}
        }
    }
    if which == Which::C03 {
        for ((path, pass), ids) in &spawns {
            if *pass == Pass::Scan {
                continue;
            }
            if !required.contains(path) {
                return viol("C03 processed-unrequired-file", format!("{path} was processed ({pass:?}) but is not required by the inputs"));
            }
            if ids.len() > 1 {
                return viol(
                    "C03 processed-twice",
                    format!("{path} had {} {pass:?} passes in one run\n  schedule {:?}", ids.len(), out.report.schedule),
                );
            }
        }
        if out.ok {
            for src in &required {
                if !spawns.contains_key(&(src.clone(), Pass::First)) {
                    return viol("C03 never-processed", format!("{src} is required but was never processed"));
                }
            }
            // exactly-once execution of commands
            for (m, (lo, hi)) in &run.ex.markers {
                let n = run.markers.get(m).copied().unwrap_or(0);
                if n < *lo || n > *hi {
                    return viol(
                        if n > *hi { "C03 command-ran-too-often" } else { "C03 command-not-run" },
                        format!("command marker {m} executed {n} times, expected {lo}..={hi}\n  schedule {:?}", out.report.schedule),
                    );
                }
            }
            for m in run.markers.keys() {
                if !run.ex.markers.contains_key(m) {
                    return viol("C03 processed-unrequired-file", format!("command marker {m} of a file that is not required was executed"));
                }
            }
        }
    }
    if which == Which::C02 && out.ok {
        // a command placed after a dependency directive runs once, in the final pass; a second
        // execution means it was started in a pass that began before the dependency was complete
        for (m, (_, hi)) in &run.ex.markers {
            if !m.starts_with("post") {
                continue;
            }
            let n = run.markers.get(m).copied().unwrap_or(0);
            if n > *hi {
                return viol(
                    "C02 command-before-dependency-complete",
                    format!(
                        "command {m}, placed after a dependency directive, ran {n} times: it was also started in a pass that began before the dependency's output was complete\n  schedule {:?}",
                        out.report.schedule
                    ),
                );
            }
        }
        // the final pass of A begins only after the final pass of each dependency has ended.
        // Only meaningful under the controller: in free-running mode a task's `end` event is
        // recorded after its `send`, so the coordinator may legitimately start the depender
        // before the dependency's guard has reported `end` (seen once in a thorough run).
        if matches!(case.sched, Sched::Free) {
            return Ok(());
        }
        let final_pass = |src: &String| -> Option<u64> {
            spawns
                .get(&(src.clone(), Pass::Second))
                .or_else(|| spawns.get(&(src.clone(), Pass::First)))
                .and_then(|v| v.last().copied())
        };
        for i in 0..g.n {
            let a = g.src_path(i);
            if !required.contains(&a) {
                continue;
            }
            for j in g.out_edges(i) {
                let b = g.src_path(j);
                let (Some(fa), Some(fb)) = (final_pass(&a), final_pass(&b)) else { continue };
                let (Some(ba), Some(eb)) = (pos_begin.get(&fa), pos_end.get(&fb)) else { continue };
                if ba < eb {
                    return viol(
                        "C02 final-pass-before-dependency",
                        format!("the final pass of {a} began before the final pass of its dependency {b} had ended\n  schedule {:?}", out.report.schedule),
                    );
                }
            }
        }
    }
    Ok(())
}

pub fn nontrivial(case: &GraphCase, pr: &Prepared, run: &GraphRun, which: Which) -> bool {
    let g = &case.graph;
    let required = &run.ex.may_process;
    let req_idx: Vec<usize> = (0..g.n).filter(|i| required.contains(&g.src_path(*i))).collect();
    let edge_inside = g.edges.iter().any(|(a, b, _)| req_idx.contains(a) && req_idx.contains(b));
    let branching = run.out.report.branching_steps > 0 || matches!(case.sched, Sched::Free);
    let _ = pr;
    match which {
        Which::C02 => edge_inside && branching,
        Which::C03 => {
            let dup = case.inputs.len() > 1 || case.inputs.iter().any(|s| s == "." || s.contains('/'));
            let shared = (0..g.n).any(|j| g.edges.iter().filter(|(a, b, _)| *b == j && a != b && req_idx.contains(a)).count() >= 2);
            req_idx.len() >= 2 && (dup || shared) && branching
        }
        Which::C05 => {
            let reaches = g.reaches_cycle();
            let k: Vec<&usize> = req_idx.iter().filter(|i| reaches[**i]).collect();
            if k.is_empty() {
                edge_inside
            } else {
                k.len() < req_idx.len()
            }
        }
    }
}

/// Enumerate all schedules of a case by re-execution (DFS), up to `cap`. Returns (runs, capped).
pub fn dfs(
    base: &GraphCase,
    which: Which,
    cap: u64,
    st: &mut Stats,
    first_fail: &mut Option<(GraphCase, String, String)>,
) -> (u64, bool) {
    let pr = prepare(base);
    let mut prefix: Vec<usize> = vec![];
    let mut runs = 0u64;
    loop {
        let mut case = base.clone();
        case.sched = Sched::Prefix(prefix.clone());
        let run = execute(&case, &pr);
        crate::wctx::beat();
        runs += 1;
        st.evaluations += 1;
        if nontrivial(&case, &pr, &run, which) {
            st.nontrivial_counted += 1;
        }
        // store the schedule actually taken, so that the replay is self-contained
        case.sched = Sched::Prefix(run.out.report.taken.iter().map(|t| t.0).collect());
        match judge(&case, &pr, &run, which) {
            Ok(()) => {}
            Err((m, s)) if s == "infra" => st.infra.push(m),
            Err((m, s)) => {
                if first_fail.is_none() {
                    *first_fail = Some((case.clone(), m, s));
                }
                return (runs, false);
            }
        }
        if runs == 1 && st.samples.len() < 3 && run.out.report.branching_steps > 0 {
            st.samples.push(serde_json::json!({
                "graph_edges": base.graph.edges, "inputs": base.inputs, "stale": base.stale,
                "schedule": run.out.report.schedule, "ok": run.out.ok
            }));
        }
        match next_prefix(&run.out.report.taken) {
            Some(p) => prefix = p,
            None => return (runs, false),
        }
        if runs >= cap {
            st.count("dfs_cap_hits", 1);
            return (runs, true);
        }
    }
}

/// one case, one run (used for sampled schedules, free runs, replay)
pub fn check_once(case: &GraphCase, which: Which, st: &mut Stats) -> Check {
    let pr = prepare(case);
    let run = execute(case, &pr);
    if nontrivial(case, &pr, &run, which) {
        st.nontrivial_hash(case);
    }
    st.class(match case.sched {
        Sched::Free => "free_running",
        Sched::Stream(_) => "sampled_schedule",
        Sched::Prefix(_) => "replayed_schedule",
    });
    match judge(case, &pr, &run, which) {
        Err((m, s)) if s == "infra" => {
            st.infra.push(m);
            Ok(())
        }
        r => r,
    }
}

/// shrink candidates for a failing graph case: drop an edge, drop the last file, simplify inputs
pub fn reduce(case: &GraphCase) -> Vec<GraphCase> {
    let mut v = vec![];
    for i in 0..case.graph.edges.len() {
        let mut c = case.clone();
        c.graph.edges.remove(i);
        v.push(c);
    }
    if case.graph.n > 1 {
        let last = case.graph.n - 1;
        let mut c = case.clone();
        c.graph.n = last;
        c.graph.edges.retain(|e| e.0 != last && e.1 != last);
        c.graph.pre_marker.truncate(last);
        c.graph.dirs.truncate(last);
        let gone = [format!("f{last}.txt"), format!("f{last}.txt.txtpp"), format!("f{last}.txtpp.txt")];
        c.inputs.retain(|s| !gone.iter().any(|g| s.ends_with(g.as_str())));
        if !c.inputs.is_empty() {
            v.push(c);
        }
    }
    if case.inputs.len() > 1 {
        for i in 0..case.inputs.len() {
            let mut c = case.clone();
            c.inputs.remove(i);
            v.push(c);
        }
    }
    if case.stale {
        let mut c = case.clone();
        c.stale = false;
        v.push(c);
    }
    if case.graph.pre_marker.iter().any(|b| *b) {
        let mut c = case.clone();
        c.graph.pre_marker.iter_mut().for_each(|b| *b = false);
        v.push(c);
    }
    if case.graph.dirs.iter().any(|d| *d != 0) && !case.inputs.iter().any(|s| s.contains("s/")) {
        let mut c = case.clone();
        c.graph.dirs.iter_mut().for_each(|d| *d = 0);
        v.push(c);
    }
    if let Sched::Stream(s) = &case.sched {
        if !s.is_empty() {
            let mut c = case.clone();
            c.sched = Sched::Stream(s[..s.len() - 1].to_vec());
            v.push(c);
            let mut c = case.clone();
            c.sched = Sched::Stream(vec![]);
            v.push(c);
        }
    }
    v
}

/// all non-empty subsets of 0..n as input lists naming outputs
pub fn subsets(n: usize) -> Vec<Vec<usize>> {
    (1u32..(1 << n)).map(|m| (0..n).filter(|i| m >> i & 1 == 1).collect()).collect()
}
