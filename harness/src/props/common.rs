//! Helpers shared by the property modules.

use crate::fsx::{self, Scratch};
use crate::gen::project::Project;
use crate::model::{Expect, Model, ModelCfg};
use crate::runner::RunOpts;
use std::collections::BTreeMap;

pub type Bytes = BTreeMap<String, Vec<u8>>;

/// A project written to a fresh scratch root.
pub struct Setup {
    pub sc: Scratch,
    pub root: String,
    pub tree: Bytes,
}

pub fn materialise(project: &Project) -> Setup {
    let sc = Scratch::new();
    let root = sc.root_str();
    let tree = project.materialise(&root, &sc.mark_str());
    Setup { sc, root, tree }
}

impl Setup {
    pub fn write(&self, project: &Project) {
        fsx::write_tree(&self.sc.root, &self.tree, &project.dirs);
    }
    pub fn cfg(&self, trailing_newline: bool) -> ModelCfg {
        ModelCfg {
            root_abs: self.root.clone(),
            trailing_newline,
            marker_dir: Some(self.sc.mark_str()),
        }
    }
    /// expected result of a build from the pristine tree
    pub fn expect(&self, project: &Project, opts: &RunOpts) -> Expect {
        let cfg = self.cfg(opts.trailing_newline);
        let mut m = Model::new(&self.tree, &project.dirs, &cfg);
        m.build(&opts.inputs, opts.recursive)
    }
    /// remove every file that is not part of the pristine tree (generated files)
    pub fn wipe_generated(&self) {
        let now = fsx::read_tree(&self.sc.root);
        for p in now.keys() {
            if !self.tree.contains_key(p) {
                let _ = std::fs::remove_file(self.sc.root.join(p));
            }
        }
    }
    /// files present now that are not part of the pristine tree
    pub fn generated(&self) -> Bytes {
        fsx::read_tree(&self.sc.root)
            .into_iter()
            .filter(|(k, _)| !self.tree.contains_key(k))
            .collect()
    }
}

pub fn strip_ansi(s: &str) -> String {
    let mut out = String::new();
    let mut it = s.chars().peekable();
    while let Some(c) = it.next() {
        if c == '\u{1b}' {
            // skip CSI sequence
            if it.peek() == Some(&'[') {
                it.next();
                for d in it.by_ref() {
                    if d.is_ascii_alphabetic() {
                        break;
                    }
                }
            }
        } else {
            out.push(c);
        }
    }
    out
}

pub fn short_err(e: &Option<String>) -> String {
    strip_ansi(e.as_deref().unwrap_or("")).chars().take(700).collect()
}
