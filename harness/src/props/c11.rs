//! C11 — exactly the requested sources are processed and outputs are named correctly.

use super::common::materialise;
use super::{viol, Check, Prop, PropMeta};
use crate::gen::project::{rel_path, Project, MARK, ROOT};
use crate::gen::Choices;
use crate::model::{names, InputRes, Model, Verdict};
use crate::runner::{self, ModeS, RunOpts};
use crate::wctx::{Stats, WorkerCtx};
use serde::{Deserialize, Serialize};
use serde_json::Value;
use std::collections::{BTreeMap, BTreeSet};

pub struct C11;

#[derive(Debug, Clone, Serialize, Deserialize)]
pub struct Case {
    pub project: Project,
    /// marker id of each source
    pub ids: BTreeMap<String, String>,
    pub inputs: Vec<String>,
    pub recursive: bool,
    pub clean: bool,
    pub threads: usize,
    /// build everything, then verify the inputs (ignored when `clean`)
    #[serde(default)]
    pub verify: bool,
    /// build only: a first run (same process, same inputs) takes place while one source does not
    /// exist yet; its result is discarded, the source is created and the case proper runs
    #[serde(default)]
    pub late_source: Option<u16>,
}

// "ab" and "a/bc" are siblings whose names extend a neighbour's name (string-prefix confusion)
const DIRS: &[&str] = &["", "a", "a/b", "a/b/c", "z", "ab", "a/bc"];
const LOOKALIKES: &[&str] = &["txtpp", ".txtpp", "a.txtpp.b.c", "atxtpp", "x.txt", "x.txtpp.bak.old", "notes.md", "b.tx"];

fn join(d: &str, n: &str) -> String {
    if d.is_empty() {
        n.to_string()
    } else {
        format!("{d}/{n}")
    }
}

fn gen_case(c: &mut Choices) -> Case {
    let mut project = Project::default();
    let mut dirs: Vec<String> = vec![String::new()];
    for d in &DIRS[1..] {
        if c.chance(1, 2) {
            let mut cur = String::new();
            for comp in d.split('/') {
                cur = join(&cur, comp);
                if !dirs.contains(&cur) {
                    dirs.push(cur.clone());
                    project.dirs.insert(cur.clone());
                }
            }
        }
    }
    let n_src = 1 + c.below(7);
    let mut srcs: Vec<(String, String)> = vec![]; // (source path, output path)
    let mut used: BTreeSet<String> = BTreeSet::new();
    for k in 0..n_src {
        let d = &dirs[c.below(dirs.len())].clone();
        let stem = format!("{}{k}", c.pick(&["f", "g", "doc"]));
        let ext = *c.pick(&["txt", "md", ""]);
        let shape = c.below(3);
        let (src, out) = match (shape, ext.is_empty()) {
            (_, true) => (format!("{stem}.txtpp"), stem.clone()),
            (1, false) => (format!("{stem}.txtpp.{ext}"), format!("{stem}.{ext}")),
            _ => (format!("{stem}.{ext}.txtpp"), format!("{stem}.{ext}")),
        };
        used.insert(join(d, &out));
        srcs.push((join(d, &src), join(d, &out)));
    }
    let mut ids = BTreeMap::new();
    for (k, (src, _)) in srcs.iter().enumerate() {
        let mut s = format!("text of {k}\n");
        // dependencies on lower-numbered sources (by output name): none, one before the
        // command, or one before and one after it - the latter possibly as the very last line
        let dep_line = |c: &mut Choices, srcs: &Vec<(String, String)>| -> String {
            let j = c.below(k);
            let target = rel_path(names::parent(src), &srcs[j].1);
            if c.chance(1, 2) {
                format!("TXTPP#include {target}\n")
            } else {
                format!("TXTPP#after {target}\n")
            }
        };
        let ndeps = if k > 0 { c.weighted(&[4, 2, 2]) } else { 0 };
        if ndeps >= 1 {
            s.push_str(&dep_line(c, &srcs));
        }
        let id = format!("src{k}");
        s.push_str(&format!("-TXTPP#run echo {id} >> {MARK}/log\n"));
        if ndeps >= 2 {
            s.push_str("middle\n");
            s.push_str(&dep_line(c, &srcs));
            if c.chance(1, 2) {
                s.push_str("end\n");
            }
        } else {
            s.push_str("end\n");
        }
        ids.insert(src.clone(), id);
        project.put(src, s);
    }
    // look-alikes and plain files
    for d in &dirs {
        for l in LOOKALIKES {
            if c.chance(1, 5) {
                let p = join(d, l);
                if !used.contains(&p) && !project.files.contains_key(&p) {
                    project.put(&p, format!("lookalike {l}\n"));
                }
            }
        }
    }
    // inputs
    let n_in = 1 + c.below(4);
    let mut inputs = vec![];
    for _ in 0..n_in {
        match c.weighted(&[5, 4, 4, 2, 1, 1]) {
            0 => {
                // a directory
                let d = dirs[c.below(dirs.len())].clone();
                inputs.push(match (d.is_empty(), c.below(3)) {
                    (true, 0) => ".".to_string(),
                    (true, 1) => "./".to_string(),
                    (true, _) => ROOT.to_string(),
                    (false, 0) => d.to_string(),
                    (false, 1) => format!("./{d}"),
                    (false, _) => format!("{ROOT}/{d}"),
                });
            }
            1 | 2 => {
                let (src, out) = &srcs[c.below(srcs.len())];
                let name = if c.chance(1, 2) { src.clone() } else { out.clone() };
                inputs.push(match c.below(4) {
                    0 => name,
                    1 => format!("./{name}"),
                    2 => format!("{ROOT}/{name}"),
                    _ => {
                        // through another directory and back
                        let d = dirs[c.below(dirs.len())].clone();
                        if d.is_empty() {
                            name
                        } else {
                            let ups: Vec<&str> = d.split('/').map(|_| "..").collect();
                            format!("{d}/{}/{name}", ups.join("/"))
                        }
                    }
                });
            }
            3 => {
                // duplicate of an earlier input
                if let Some(x) = inputs.first().cloned() {
                    inputs.push(x);
                }
            }
            4 => inputs.push(c.pick(&["nothere.txt", "a/nothere.txtpp", "nothere.txtpp.md", "q/none"]).to_string()),
            _ => {
                // a plain file without source / a look-alike
                let plain: Vec<&String> = project.files.keys().filter(|k| !names::source_shaped(k)).collect();
                if !plain.is_empty() {
                    inputs.push(plain[c.below(plain.len())].clone());
                }
            }
        }
    }
    if inputs.is_empty() {
        inputs.push(".".into());
    }
    Case {
        project,
        ids,
        inputs,
        recursive: c.chance(1, 2),
        clean: c.chance(1, 4),
        threads: 1 + c.below(6),
        verify: c.chance(1, 4),
        late_source: if c.chance(1, 5) { Some(c.raw()) } else { None },
    }
}

pub fn check(case: &Case, st: &mut Stats) -> Check {
    let su = materialise(&case.project);
    let inputs: Vec<String> = case.inputs.iter().map(|s| s.replace(ROOT, &su.root)).collect();
    let cfg = su.cfg(true);
    let mut model = Model::new(&su.tree, &case.project.dirs, &cfg);
    let all_outputs: BTreeMap<String, String> = case.project.sources().into_iter().map(|s| (names::output_of(&s).unwrap(), s)).collect();
    let opts = RunOpts {
        mode: if case.clean {
            ModeS::Clean
        } else if case.verify {
            ModeS::Verify
        } else {
            ModeS::Build
        },
        trailing_newline: true,
        threads: case.threads,
        recursive: case.recursive,
        inputs: inputs.clone(),
        shell: String::new(),
    };
    let deep = case.project.sources().iter().any(|s| s.matches('/').count() >= 2);
    let aliased = case.inputs.len() > 1 || case.inputs.iter().any(|s| s.contains("..") || s.starts_with(ROOT) || s.starts_with("./"));
    let lookalike = su.tree.keys().any(|k| !names::source_shaped(k));
    if deep || aliased || lookalike {
        st.nontrivial_hash(&serde_json::to_string(case).unwrap());
    }
    st.sample(|| serde_json::json!({"files": case.project.files.keys().collect::<Vec<_>>(), "inputs": case.inputs, "recursive": case.recursive, "clean": case.clean, "verify": case.verify}), 4);
    su.write(&case.project);
    if case.clean {
        // clean on a tree with all outputs present: removed set == outputs of the clean set
        let roots = match model.resolve_inputs(&inputs, case.recursive) {
            InputRes::Sources(s) => Some(s),
            InputRes::Err(..) => None,
            InputRes::Excluded(r) => {
                st.exclude(&r);
                return Ok(());
            }
        };
        for o in all_outputs.keys() {
            std::fs::write(su.sc.root.join(o), b"built earlier\n").expect("seed output");
        }
        let out = runner::run_free(&su.sc.root, &opts);
        st.class(if roots.is_some() { "clean" } else { "clean_input_error" });
        let Some(roots) = roots else {
            if out.ok {
                return viol("C11 missing-target-accepted clean", format!("inputs {:?} name a target without source but clean succeeded", case.inputs));
            }
            return Ok(());
        };
        if !out.ok {
            return viol("C11 clean-failed", format!("clean of {:?} failed: {}", case.inputs, super::common::short_err(&out.err)));
        }
        let want_removed: BTreeSet<String> = roots.iter().map(|s| names::output_of(s).unwrap()).collect();
        let removed: BTreeSet<String> = all_outputs.keys().filter(|o| !su.sc.root.join(o).exists()).cloned().collect();
        if removed != want_removed {
            return viol(
                if removed.len() > want_removed.len() { "C11 clean-removed-too-much" } else { "C11 clean-removed-too-little" },
                format!("clean of inputs {:?} (recursive={}) removed {removed:?}, expected {want_removed:?}", case.inputs, case.recursive),
            );
        }
        if su.sc.marker_lines().len() != 0 {
            return viol("C11 clean-executed", "clean executed commands".into());
        }
        return Ok(());
    }
    if let (Some(sel), false) = (case.late_source, case.verify) {
        let srcs = case.project.sources();
        if !srcs.is_empty() {
            let s = &srcs[(sel as usize * srcs.len()) >> 16];
            let _ = std::fs::remove_file(su.sc.root.join(s));
            let _ = runner::run_free(&su.sc.root, &opts);
            su.sc.reset();
            su.write(&case.project);
            st.class("source_created_after_a_first_run");
        }
    }
    let ex = model.build(&inputs, case.recursive);
    // verify: everything is built first, then the case's inputs are verified; the commands of
    // exactly the processed sources run once more and nothing is created
    let mut base_marks: BTreeMap<String, u32> = BTreeMap::new();
    let mut tree_before = su.tree.clone();
    if case.verify {
        if matches!(ex.verdict, Verdict::Excluded(_)) {
            st.exclude("outside the model's domain");
            return Ok(());
        }
        let all = RunOpts { mode: ModeS::Build, recursive: true, inputs: vec![".".into()], ..opts.clone() };
        let b = runner::run_free(&su.sc.root, &all);
        if !b.ok {
            st.class("verify_prebuild_failed_skipped");
            return Ok(());
        }
        base_marks = su.sc.markers();
        tree_before = crate::fsx::read_tree(&su.sc.root);
    }
    let what = if case.verify { "verify" } else { "build" };
    let out = runner::run_free(&su.sc.root, &opts);
    match &ex.verdict {
        Verdict::Excluded(r) => {
            st.exclude(r);
            return Ok(());
        }
        Verdict::Err(k, what) => {
            st.class(&format!("input_error:{k:?}"));
            if out.ok {
                return viol(
                    &format!("C11 missing-target-accepted {k:?}"),
                    format!("input {what:?} has no source but the run succeeded (inputs {:?}, verify={})", case.inputs, case.verify),
                );
            }
            return Ok(());
        }
        Verdict::Ok => {}
    }
    st.class(&format!("{what}_{}", if case.recursive { "recursive" } else { "flat" }));
    if !out.ok {
        return viol(&format!("C11 {what}-failed"), format!("{what} of {:?} failed: {}", case.inputs, super::common::short_err(&out.err)));
    }
    // created outputs == outputs of the expected processed set (verify: nothing)
    let want: BTreeSet<String> = if case.verify { BTreeSet::new() } else { ex.processed.iter().map(|s| names::output_of(s).unwrap()).collect() };
    let after = crate::fsx::read_tree(&su.sc.root);
    let created: BTreeSet<String> = after.keys().filter(|k| !tree_before.contains_key(*k)).cloned().collect();
    if created != want {
        let extra: Vec<&String> = created.difference(&want).collect();
        let missing: Vec<&String> = want.difference(&created).collect();
        return viol(
            if !extra.is_empty() { "C11 processed-too-much" } else { "C11 processed-too-little" },
            format!(
                "{what} inputs {:?} recursive={}: created {created:?}\n  expected exactly {want:?}\n  unexpected {extra:?} missing {missing:?}",
                case.inputs, case.recursive
            ),
        );
    }
    // each processed source executed its command exactly once, no other source did
    let marks = su.sc.markers();
    for (src, id) in &case.ids {
        let n = marks.get(id).copied().unwrap_or(0) - base_marks.get(id).copied().unwrap_or(0);
        let want_n = if ex.processed.contains(src) { 1 } else { 0 };
        if n != want_n {
            return viol(
                if n > want_n { "C11 source-processed-more-than-once" } else { "C11 source-not-processed" },
                format!("{what}: source {src}: command executed {n} times, expected {want_n} (inputs {:?}, recursive={})", case.inputs, case.recursive),
            );
        }
    }
    Ok(())
}

fn reduce(case: &Case) -> Vec<Case> {
    let mut v = vec![];
    for k in case.project.files.keys() {
        let mut c = case.clone();
        c.project.files.remove(k);
        c.ids.remove(k);
        v.push(c);
    }
    for i in 0..case.inputs.len() {
        if case.inputs.len() > 1 {
            let mut c = case.clone();
            c.inputs.remove(i);
            v.push(c);
        }
    }
    v
}

impl Prop for C11 {
    fn meta(&self) -> PropMeta {
        PropMeta {
            id: "C11",
            level: "exploration",
            rule: "cases = generated directory trees (depth <=3) with 1-7 sources in the three name shapes (x.ext.txtpp, x.txtpp.ext, x.txtpp), include/after dependencies between them, and look-alike files (txtpp, .txtpp, a.txtpp.b.c, atxtpp, x.txtpp.bak.old ...) x input lists of 1-4 entries (directories as '.', './', relative, absolute; files by source or output name, './', absolute, through another directory and '..'; duplicates; missing targets; plain files without source) x recursive on/off x build (also as the second run of the process over the same paths, after a first run that took place before one of the sources existed), verify (after a full build) or clean, base directory different from the process working directory. Oracle: independent input-resolution model => expected processed set P (closed under dependencies for build). Build from an output-free tree: the set of created files equals {out(s) | s in P} and each source's marker command ran exactly once iff s in P; an input without source => error. Verify after a full build: succeeds, creates nothing, and the marker commands of exactly the sources in P run once more. Clean on a tree with every output present: the set of removed outputs equals the outputs of the named sources (not their dependencies), no command runs. Non-trivial = sources at depth >=2, aliased/duplicate/mixed inputs, or look-alikes present; distinct by hash.",
            assumptions: vec!["symlinks are not generated; the child-process entry with a relative base directory is covered by C17"],
            hang_is_violation: false,
            needs_cli: false,
        }
    }
    fn worker(&self, ctx: &mut WorkerCtx) {
        let total = if ctx.quick { 60_000 } else { 1_000_000 };
        let n = ctx.share(total);
        ctx.drive(1, n, 300, &gen_case, &check, &reduce);
    }
    fn replay(&self, case: &Value) -> Check {
        let case: Case = serde_json::from_value(case.clone()).map_err(|e| (format!("bad case: {e}"), "bad-case".to_string()))?;
        check(&case, &mut Stats::default())
    }
}
