//! C07 — clean removes exactly what build generated and never executes anything.

use super::common::materialise;
use super::{reduce_project, viol, Check, Prop, PropMeta};
use crate::fsx;
use crate::gen::project::{gen_project, GenParams, Project};
use crate::gen::Choices;
use crate::model::{names, Model, Verdict};
use crate::runner::{self, ModeS, RunOpts};
use crate::wctx::{Stats, WorkerCtx};
use serde::{Deserialize, Serialize};
use serde_json::Value;
use std::collections::BTreeSet;

pub struct C07;

#[derive(Debug, Clone, Copy, PartialEq, Eq, Serialize, Deserialize)]
pub enum History {
    BuildClean,
    CleanOnly,
    BuildCleanClean,
    /// build, delete some generated files by hand, clean
    BuildDeleteClean,
}

#[derive(Debug, Clone, Serialize, Deserialize)]
pub struct Case {
    pub project: Project,
    pub history: History,
    pub trailing_newline: bool,
    pub threads: usize,
    pub delete_sel: u16,
    /// name every source explicitly instead of scanning "." recursively
    pub explicit_inputs: bool,
}

fn gen_case(c: &mut Choices) -> Case {
    let p = GenParams {
        error_rate: 30,
        max_sources: 4,
        max_items: 8,
        markers: true,
        decoys: true,
        ..GenParams::default()
    };
    let project = gen_project(c, &p);
    Case {
        project,
        history: *c.pick(&[History::BuildClean, History::BuildClean, History::CleanOnly, History::BuildCleanClean, History::BuildDeleteClean]),
        trailing_newline: !c.chance(1, 5),
        threads: 1 + c.below(4),
        delete_sel: c.raw(),
        explicit_inputs: c.chance(1, 3),
    }
}

pub fn check(case: &Case, st: &mut Stats) -> Check {
    let su = materialise(&case.project);
    let sources = case.project.sources();
    let (inputs, recursive) = if case.explicit_inputs && !sources.is_empty() {
        (sources.clone(), false)
    } else {
        (vec![".".to_string()], true)
    };
    let opts = RunOpts {
        mode: ModeS::Build,
        trailing_newline: case.trailing_newline,
        threads: case.threads,
        recursive,
        inputs,
        shell: String::new(),
    };
    let ex = su.expect(&case.project, &opts);
    if let Verdict::Excluded(r) = &ex.verdict {
        st.exclude(r);
        return Ok(());
    }
    let cfg = su.cfg(case.trailing_newline);
    let model = Model::new(&su.tree, &case.project.dirs, &cfg);
    su.write(&case.project);
    let s0 = fsx::snapshot(&su.sc.root);
    let mut built_ok = false;
    if case.history != History::CleanOnly {
        let b = runner::run_free(&su.sc.root, &opts);
        built_ok = b.ok;
        if b.ok != matches!(ex.verdict, Verdict::Ok) {
            st.class("build_verdict_differs_from_model(C01)");
        }
    }
    if case.history == History::BuildDeleteClean {
        let gen: Vec<String> = su.generated().keys().cloned().collect();
        if !gen.is_empty() {
            let k = ((case.delete_sel as usize) * gen.len()) >> 16;
            let _ = std::fs::remove_file(su.sc.root.join(&gen[k]));
            if gen.len() > 2 {
                let _ = std::fs::remove_file(su.sc.root.join(&gen[(k + 1) % gen.len()]));
            }
        }
    }
    let erroneous = !matches!(ex.verdict, Verdict::Ok);
    let markers_before = su.sc.marker_lines().len();
    let copts = opts.with_mode(ModeS::Clean);
    let rounds = if case.history == History::BuildCleanClean { 2 } else { 1 };
    // removable = outputs and temp targets of the cleaned sources
    let mut removable: BTreeSet<String> = BTreeSet::new();
    for s in &sources {
        removable.insert(names::output_of(s).unwrap());
        for t in model.syntactic_temps(s) {
            removable.insert(t);
        }
    }
    for round in 0..rounds {
        let before = fsx::snapshot(&su.sc.root);
        let cl = runner::run_free(&su.sc.root, &copts);
        let after = fsx::snapshot(&su.sc.root);
        if !cl.ok {
            return viol(
                if erroneous { "C07 clean-fails-on-erroneous-source" } else { "C07 clean-fails" },
                format!("clean (round {round}) returned an error: {}", super::common::short_err(&cl.err)),
            );
        }
        let ran = su.sc.marker_lines().len() - markers_before;
        if ran != 0 {
            return viol("C07 clean-executed-command", format!("clean executed {ran} run command(s): {:?}", su.sc.marker_lines()));
        }
        for (p, ch) in fsx::diff(&before, &after) {
            match ch {
                fsx::Change::Created => return viol("C07 clean-created", format!("clean created {p}")),
                fsx::Change::Deleted => {
                    if names::source_shaped(&p) {
                        return viol("C07 clean-deleted-txtpp", format!("clean deleted the .txtpp file {p}"));
                    }
                    if !removable.contains(&p) {
                        return viol("C07 clean-deleted-other", format!("clean deleted {p}, which is neither an output nor a temp target"));
                    }
                }
                fsx::Change::Content | fsx::Change::Touched => {
                    return viol("C07 clean-modified", format!("clean modified {p}"));
                }
            }
        }
    }
    let end = fsx::snapshot(&su.sc.root);
    st.class(&format!("{:?}/{}", case.history, if erroneous { "erroneous" } else { "wellformed" }));
    let gen_temp = ex.files.len() > ex.outputs.len();
    if erroneous || (gen_temp && !ex.outputs.is_empty()) {
        st.nontrivial_hash(&serde_json::to_string(case).unwrap());
    }
    st.sample(|| serde_json::json!({"case": case}), 3);
    if built_ok && case.history != History::CleanOnly {
        // successful build, then clean of the same inputs: the tree is restored exactly
        let left: Vec<(String, fsx::Change)> = fsx::diff(&s0, &end)
            .into_iter()
            .filter(|(_, c)| !matches!(c, fsx::Change::Touched))
            .collect();
        if !left.is_empty() {
            return viol(
                "C07 tree-not-restored",
                format!("after build + clean the tree differs from the pre-build tree: {left:?}"),
            );
        }
    }
    if case.history == History::CleanOnly {
        let left = fsx::diff(&s0, &end);
        if !left.is_empty() {
            return viol("C07 clean-on-pristine-changed", format!("clean on a tree without generated files changed it: {left:?}"));
        }
    }
    Ok(())
}

fn reduce(case: &Case) -> Vec<Case> {
    reduce_project(&case.project).into_iter().map(|p| Case { project: p, ..case.clone() }).collect()
}

impl Prop for C07 {
    fn meta(&self) -> PropMeta {
        PropMeta {
            id: "C07",
            level: "exploration",
            rule: "cases = generated projects whose inputs are closed under dependency (whole tree recursively, or every source named), with temp targets in other directories, decoys, and sources with erroneous directives (prefix-less run, bad tag order, .txtpp temp target, failing command, missing include) x history {build-clean, clean only, build-clean-clean, build-delete some generated files-clean}. Oracle: snapshot S0 of the tree without generated files; after a successful build, clean restores S0 exactly (paths and bytes); in every history clean returns Ok, the marker log shows zero command executions during clean, clean creates and modifies nothing, deletes no .txtpp-shaped path, and every deleted path is an output or a temp target of a cleaned source. Non-trivial = erroneous source present, or >=1 output and >=1 temp file generated; distinct by hash.",
            assumptions: vec!["temp targets are found by a syntactic scan with the reference grammar (clean-mode reading: a prefix-less directive line is skipped)"],
            hang_is_violation: false,
            needs_cli: false,
        }
    }
    fn worker(&self, ctx: &mut WorkerCtx) {
        let total = if ctx.quick { 40_000 } else { 1_000_000 };
        let n = ctx.share(total);
        ctx.drive(1, n, 600, &gen_case, &check, &reduce);
    }
    fn replay(&self, case: &Value) -> Check {
        let case: Case = serde_json::from_value(case.clone()).map_err(|e| (format!("bad case: {e}"), "bad-case".to_string()))?;
        check(&case, &mut Stats::default())
    }
}
