//! C17 — run commands execute in the source's directory with the documented contract.

use super::{viol, Check, Prop, PropMeta};
use crate::child::{self, LibSpec};
use crate::fsx::{self, Scratch};
use crate::gen::Choices;
use crate::runner::{self, ModeS, RunOpts};
use crate::wctx::{Stats, WorkerCtx};
use serde::{Deserialize, Serialize};
use serde_json::Value;
use std::path::{Path, PathBuf};
use std::time::Duration;

pub struct C17;

#[derive(Debug, Clone, Copy, PartialEq, Eq, Serialize, Deserialize)]
pub enum Entry {
    /// library call in this process, absolute base, process cwd "/"
    LibInProcess,
    /// library call in a child process with its own cwd
    LibChild,
    /// the txtpp binary (base is always ".")
    Cli,
    /// the txtpp binary with TXTPP_FILE already set: must refuse to start
    CliGuard,
}

#[derive(Debug, Clone, Copy, PartialEq, Eq, Serialize, Deserialize)]
pub enum BaseKind {
    /// cwd == base, base given as "."
    EqCwd,
    /// cwd is a subdirectory of base, base given as ".." chain
    AncestorOfCwd,
    /// cwd unrelated to base, base given absolute
    UnrelatedAbs,
    /// cwd is the parent of base, base given as relative name
    RelativeName,
}

#[derive(Debug, Clone, Serialize, Deserialize)]
pub struct Case {
    pub depth: usize,
    pub entry: Entry,
    pub base: BaseKind,
    /// extra arguments of the argv-dumping shell; None = default shell
    pub dumper: Option<Vec<String>>,
    /// first line and continuation lines of an echo command: (text after the prefix as written)
    pub cmd_first: String,
    pub cmd_cont: Vec<String>,
    /// continuation written with spaces instead of the prefix
    pub cont_spaces: Vec<bool>,
    pub exit_code: u8,
    pub threads: usize,
    pub input_by_output_name: bool,
    /// the failing command fails only the first time it is executed (it leaves a flag file):
    /// its non-zero status must still fail the build, and it must not be run again
    #[serde(default)]
    pub fails_once: bool,
    /// the failing command does not exit at all: its shell is killed by a signal
    #[serde(default)]
    pub killed: bool,
    /// further sources of the same build, in other directories, that run the textually identical
    /// `pwd` / `echo $TXTPP_FILE` commands (default shell only)
    #[serde(default)]
    pub siblings: u8,
    #[serde(default)]
    pub siblings_first: bool,
    /// configured shell only: after the build, verify with the same configuration (in-process);
    /// the commands must go to the configured shell again, with the same contract
    #[serde(default)]
    pub verify_after: bool,
}

fn gen_case(c: &mut Choices) -> Case {
    let entry = *c.pick(&[Entry::LibInProcess, Entry::LibInProcess, Entry::LibChild, Entry::LibChild, Entry::Cli, Entry::CliGuard]);
    let base = match entry {
        Entry::LibInProcess => BaseKind::UnrelatedAbs,
        Entry::Cli | Entry::CliGuard => BaseKind::EqCwd,
        Entry::LibChild => *c.pick(&[BaseKind::EqCwd, BaseKind::AncestorOfCwd, BaseKind::UnrelatedAbs, BaseKind::RelativeName]),
    };
    let depth = c.below(4);
    let dumper = if c.chance(1, 3) {
        let n = c.below(3);
        Some((0..n).map(|_| c.pick(&["-x", "two", "--opt=1", "A"]).to_string()).collect())
    } else {
        None
    };
    let words = ["alpha", "beta", "g=1", "d.e", "Z"];
    let cmd_first = format!("echo {}", c.pick(&words));
    let n = c.below(4);
    let mut cmd_cont = vec![];
    let mut cont_spaces = vec![];
    for _ in 0..n {
        let lead = " ".repeat(c.below(4));
        let trail = " ".repeat(c.below(3));
        cmd_cont.push(format!("{lead}{}{trail}", c.pick(&words)));
        cont_spaces.push(c.chance(1, 3));
    }
    Case {
        depth,
        entry,
        base,
        dumper,
        cmd_first,
        cmd_cont,
        cont_spaces,
        exit_code: if c.chance(1, 5) { if c.chance(1, 2) { *c.pick(&[1u8, 2, 3, 42, 126, 127, 255]) } else { 1 + c.below(200) as u8 } } else { 0 },
        threads: 1 + c.below(4),
        input_by_output_name: c.chance(1, 2),
        fails_once: c.chance(1, 2),
        killed: c.chance(1, 4),
        siblings: if c.chance(1, 2) { 1 + c.below(2) as u8 } else { 0 },
        siblings_first: c.chance(1, 2),
        verify_after: c.chance(1, 2),
    }
}

const DIRS: &[&str] = &["one", "two", "three"];

struct Record {
    cwd: String,
    file: String,
    args: Vec<String>,
}

fn parse_dump(s: &str) -> Vec<Record> {
    let mut v = vec![];
    let mut cur: Option<Record> = None;
    for l in s.lines() {
        if l == "BEGIN" {
            cur = Some(Record { cwd: String::new(), file: String::new(), args: vec![] });
        } else if l == "END" {
            if let Some(r) = cur.take() {
                v.push(r);
            }
        } else if let Some(r) = cur.as_mut() {
            if let Some(x) = l.strip_prefix("CWD=") {
                r.cwd = x.to_string();
            } else if let Some(x) = l.strip_prefix("FILE=") {
                r.file = x.to_string();
            } else if let Some(x) = l.strip_prefix("ARG=[") {
                r.args.push(x.strip_suffix(']').unwrap_or(x).to_string());
            }
        }
    }
    v
}

fn designates(base_abs: &Path, value: &str, source: &Path) -> bool {
    if value.is_empty() {
        return false;
    }
    let p = if Path::new(value).is_absolute() { PathBuf::from(value) } else { base_abs.join(value) };
    match (p.canonicalize(), source.canonicalize()) {
        (Ok(a), Ok(b)) => a == b,
        _ => false,
    }
}

pub fn check(case: &Case, st: &mut Stats) -> Check {
    let sc = Scratch::new();
    let r = &sc.root; // scratch root; the project lives in r/proj
    let base_abs = r.join("proj");
    let mut src_dir = base_abs.clone();
    let mut rel_dir = String::new();
    for d in DIRS.iter().take(case.depth) {
        src_dir = src_dir.join(d);
        rel_dir = if rel_dir.is_empty() { d.to_string() } else { format!("{rel_dir}/{d}") };
    }
    std::fs::create_dir_all(&src_dir).expect("mkdir");
    std::fs::create_dir_all(r.join("elsewhere")).expect("mkdir");
    let source = src_dir.join("s.txt.txtpp");
    let output = src_dir.join("s.txt");
    // the source
    // consecutive directives use different prefixes: a line starting with the previous
    // directive's prefix would continue it
    let mut text = String::from("A\n-TXTPP#run pwd\n+TXTPP#run echo $TXTPP_FILE\n");
    text.push_str(&format!("~TXTPP#run {}\n", case.cmd_first));
    let mut args: Vec<String> = vec![case.cmd_first.trim().to_string()];
    for (i, l) in case.cmd_cont.iter().enumerate() {
        let lead = if case.cont_spaces.get(i).copied().unwrap_or(false) { " " } else { "~" };
        text.push_str(&format!("{lead}{l}\n"));
        args.push(l.trim_end().to_string());
    }
    text.push_str("B\n");
    let flag = r.join("flag");
    let runs_log = r.join("runs.log");
    let failing_cmd = if case.killed && case.dumper.is_none() {
        "echo partial; kill -KILL $$".to_string()
    } else if case.fails_once && case.dumper.is_none() {
        format!(
            "echo run >> {}; if [ -e {} ]; then echo again; else touch {}; exit {}; fi",
            runs_log.display(),
            flag.display(),
            flag.display(),
            case.exit_code
        )
    } else {
        format!("exit {}", case.exit_code)
    };
    if case.exit_code != 0 {
        text.push_str(&format!("-TXTPP#run {failing_cmd}\n"));
    }
    std::fs::write(&source, &text).expect("write source");
    // (directory, source, output, input name)
    let mut sibs: Vec<(PathBuf, PathBuf, PathBuf, String)> = vec![];
    if case.dumper.is_none() {
        for k in 0..case.siblings.min(2) {
            let d = base_abs.join(format!("sib{k}"));
            std::fs::create_dir_all(&d).expect("mkdir");
            std::fs::write(d.join("t.txt.txtpp"), "-TXTPP#run pwd\n+TXTPP#run echo $TXTPP_FILE\nB\n").expect("write sibling");
            sibs.push((d.clone(), d.join("t.txt.txtpp"), d.join("t.txt"), format!("sib{k}/t.txt.txtpp")));
        }
    }
    let command = args.join(" ");
    let echo_words: Vec<&str> = command.split_whitespace().skip(1).collect();
    // shell
    let dump_log = r.join("dump.log");
    let shell = match &case.dumper {
        None => String::new(),
        Some(extra) => {
            let script = r.join("dump.sh");
            let body = format!(
                "#!/bin/sh\n{{\nprintf 'BEGIN\\n'\nprintf 'CWD=%s\\n' \"$(pwd)\"\nprintf 'FILE=%s\\n' \"$TXTPP_FILE\"\nfor a in \"$@\"; do printf 'ARG=[%s]\\n' \"$a\"; done\nprintf 'END\\n'\n}} >> {}\nprintf 'dumped\\n'\n",
                dump_log.display()
            );
            std::fs::write(&script, body).expect("write script");
            use std::os::unix::fs::PermissionsExt;
            std::fs::set_permissions(&script, std::fs::Permissions::from_mode(0o755)).expect("chmod");
            let mut s = script.display().to_string();
            for e in extra {
                s.push(' ');
                s.push_str(e);
            }
            s
        }
    };
    let rel_src = if rel_dir.is_empty() { "s.txt.txtpp".to_string() } else { format!("{rel_dir}/s.txt.txtpp") };
    let input = if case.input_by_output_name { rel_src.trim_end_matches(".txtpp").to_string() } else { rel_src.clone() };
    let opts = RunOpts {
        mode: ModeS::Build,
        trailing_newline: true,
        threads: case.threads,
        recursive: false,
        inputs: if case.siblings_first {
            sibs.iter().map(|s| s.3.clone()).chain(std::iter::once(input)).collect()
        } else {
            std::iter::once(input).chain(sibs.iter().map(|s| s.3.clone())).collect()
        },
        shell,
    };
    // cwd and base as given
    let (cwd, base_given): (PathBuf, String) = match case.base {
        BaseKind::EqCwd => (base_abs.clone(), ".".into()),
        BaseKind::AncestorOfCwd => {
            if case.depth == 0 {
                (base_abs.clone(), ".".into())
            } else {
                (src_dir.clone(), vec![".."; case.depth].join("/"))
            }
        }
        BaseKind::UnrelatedAbs => (r.join("elsewhere"), base_abs.display().to_string()),
        BaseKind::RelativeName => (r.to_path_buf(), "proj".into()),
    };
    st.class(&format!("{:?}/{:?}/depth{}/{}", case.entry, case.base, case.depth, if case.dumper.is_some() { "dumper" } else { "sh" }));
    if (case.depth >= 1 && case.base != BaseKind::EqCwd) || case.dumper.is_some() || !case.cmd_cont.is_empty() {
        st.nontrivial_hash(&serde_json::to_string(case).unwrap());
    }
    st.sample(|| serde_json::json!({"case": case, "source": text, "command": command}), 3);
    let limit = Duration::from_secs(60);
    // run
    let ok: bool;
    let mut err_text = String::new();
    match case.entry {
        Entry::LibInProcess => {
            let _ = std::env::set_current_dir("/");
            let out = runner::run_free(&base_abs, &opts);
            ok = out.ok;
            err_text = super::common::short_err(&out.err);
        }
        Entry::LibChild => {
            let spec = LibSpec { cwd: cwd.display().to_string(), base: base_given.clone(), opts: opts.clone() };
            let (ex, res) = child::run_lib(&spec, None, limit);
            let Some(res) = res else {
                st.infra.push(format!("child-run gave no result: code {:?} signal {:?} timed_out {} stderr {}", ex.code, ex.signal, ex.timed_out, ex.stderr.chars().take(300).collect::<String>()));
                return Ok(());
            };
            ok = res.ok;
            err_text = res.err.unwrap_or_default();
        }
        Entry::Cli | Entry::CliGuard => {
            let before = fsx::snapshot(r);
            let env: Vec<(String, String)> = if case.entry == Entry::CliGuard {
                vec![("TXTPP_FILE".into(), "outer.txtpp".into())]
            } else {
                vec![]
            };
            let ex = child::run_cli(&cwd, &child::cli_args(&opts), &env, None, limit);
            if ex.timed_out {
                st.infra.push("CLI timed out".into());
                return Ok(());
            }
            if case.entry == Entry::CliGuard {
                if ex.code == Some(0) {
                    return viol("C17 guard-missing", "the txtpp binary started although TXTPP_FILE was set (exit status 0)".into());
                }
                let after = fsx::snapshot(r);
                let d = fsx::diff(&before, &after);
                if !d.is_empty() {
                    return viol("C17 guard-missing", format!("the txtpp binary with TXTPP_FILE set still changed files: {d:?}"));
                }
                if ex.code.is_none() {
                    return viol("C17 guard-crash", format!("the txtpp binary was killed by signal {:?}", ex.signal));
                }
                return Ok(());
            }
            match ex.code {
                Some(0) => ok = true,
                Some(1) | Some(2) => {
                    ok = false;
                    err_text = crate::props::common::strip_ansi(&ex.stderr).chars().take(600).collect();
                }
                other => {
                    return viol("C17 cli-abnormal-exit", format!("the txtpp binary ended with status {other:?} signal {:?}: {}", ex.signal, ex.stderr.chars().take(300).collect::<String>()));
                }
            }
        }
    }
    // verdict
    let expect_ok = case.exit_code == 0 || case.dumper.is_some();
    if ok != expect_ok {
        return viol(
            if ok { "C17 nonzero-status-ignored" } else { "C17 build-failed" },
            format!(
                "source at depth {} ({:?}, {:?}, base given as {base_given:?}, cwd {}): expected {} but the run {}: {err_text}",
                case.depth,
                case.entry,
                case.base,
                cwd.display(),
                if expect_ok { "success" } else { "failure (command exits non-zero)" },
                if ok { "succeeded" } else { "failed" }
            ),
        );
    }
    if case.exit_code != 0 && case.fails_once && !case.killed && case.dumper.is_none() {
        let n = std::fs::read_to_string(&runs_log).map(|s| s.lines().count()).unwrap_or(0);
        if n != 1 {
            return viol(
                "C17 failing-command-run-again",
                format!("the command exited with status {} and was executed {n} times in one run", case.exit_code),
            );
        }
    }
    let src_dir_c = src_dir.canonicalize().unwrap().display().to_string();
    match &case.dumper {
        None => {
            if !ok {
                return Ok(());
            }
            let got = std::fs::read_to_string(&output).unwrap_or_default();
            let lines: Vec<&str> = got.lines().collect();
            if lines.len() != 5 || lines[0] != "A" || lines[4] != "B" {
                return viol("C17 stdout-not-spliced", format!("output is not the five expected lines: {got:?}"));
            }
            if lines[1] != src_dir_c {
                return viol(
                    "C17 wrong-cwd",
                    format!("`pwd` printed {:?}, the source's directory is {src_dir_c:?} (entry {:?}, base {:?} given as {base_given:?}, cwd {})", lines[1], case.entry, case.base, cwd.display()),
                );
            }
            if !designates(&base_abs, lines[2], &source) {
                return viol("C17 wrong-txtpp-file", format!("TXTPP_FILE was {:?}, which does not designate the source {}", lines[2], source.display()));
            }
            if lines[3] != echo_words.join(" ") {
                return viol("C17 wrong-command", format!("command {command:?} printed {:?}, expected {:?}", lines[3], echo_words.join(" ")));
            }
            for (d, s, o, _) in &sibs {
                let got = std::fs::read_to_string(o).unwrap_or_default();
                let lines: Vec<&str> = got.lines().collect();
                let dc = d.canonicalize().unwrap().display().to_string();
                if lines.len() != 3 || lines[0] != dc || lines[2] != "B" {
                    return viol(
                        "C17 wrong-cwd sibling",
                        format!("a second source of the same build, {}, runs `pwd` too: its output is {got:?}, its directory is {dc:?}", s.display()),
                    );
                }
                if !designates(&base_abs, lines[1], s) {
                    return viol("C17 wrong-txtpp-file sibling", format!("TXTPP_FILE was {:?} in a command of {}", lines[1], s.display()));
                }
            }
        }
        Some(extra) => {
            let recs = parse_dump(&std::fs::read_to_string(&dump_log).unwrap_or_default());
            let n_cmds = 3 + usize::from(case.exit_code != 0);
            if recs.len() != n_cmds {
                return viol("C17 wrong-invocation-count", format!("the configured shell was invoked {} times for {n_cmds} run directives", recs.len()));
            }
            let expected_cmds: Vec<String> = {
                let mut v = vec!["pwd".to_string(), "echo $TXTPP_FILE".to_string(), command.clone()];
                if case.exit_code != 0 {
                    v.push(failing_cmd.clone());
                }
                v
            };
            for (rec, cmd) in recs.iter().zip(expected_cmds.iter()) {
                if rec.cwd != src_dir_c {
                    return viol("C17 wrong-cwd", format!("the shell ran in {:?}, the source's directory is {src_dir_c:?} (entry {:?}, base {:?})", rec.cwd, case.entry, case.base));
                }
                if !designates(&base_abs, &rec.file, &source) {
                    return viol("C17 wrong-txtpp-file", format!("TXTPP_FILE was {:?}, which does not designate the source", rec.file));
                }
                let mut want: Vec<String> = extra.clone();
                want.push(cmd.clone());
                if rec.args != want {
                    return viol("C17 wrong-argv", format!("the shell received arguments {:?}, expected {:?} (configured arguments, then the command as ONE argument with its lines joined by single spaces)", rec.args, want));
                }
            }
            if ok {
                let got = std::fs::read_to_string(&output).unwrap_or_default();
                let want = if case.exit_code != 0 { "A\ndumped\ndumped\ndumped\nB\ndumped\n\n" } else { "A\ndumped\ndumped\ndumped\nB\n" };
                if got != want {
                    return viol("C17 stdout-not-spliced", format!("output {got:?}, expected {want:?}"));
                }
            }
            if ok && case.verify_after {
                let _ = std::fs::remove_file(&dump_log);
                let _ = std::env::set_current_dir("/");
                let v = runner::run_free(&base_abs, &opts.with_mode(ModeS::Verify));
                st.class("verify_with_configured_shell");
                if !v.ok {
                    return viol(
                        "C17 verify-ignores-configured-shell",
                        format!("build with the configured shell succeeded, verify with the same configuration failed: {}", super::common::short_err(&v.err)),
                    );
                }
                let recs = parse_dump(&std::fs::read_to_string(&dump_log).unwrap_or_default());
                if recs.len() != n_cmds {
                    return viol("C17 wrong-invocation-count verify", format!("verify invoked the configured shell {} times for {n_cmds} run directives", recs.len()));
                }
                for (rec, cmd) in recs.iter().zip(expected_cmds.iter()) {
                    let mut want: Vec<String> = extra.clone();
                    want.push(cmd.clone());
                    if rec.cwd != src_dir_c || rec.args != want || !designates(&base_abs, &rec.file, &source) {
                        return viol(
                            "C17 wrong-invocation verify",
                            format!("verify: the shell ran in {:?} with TXTPP_FILE {:?} and arguments {:?}; expected {src_dir_c:?} / the source / {want:?}", rec.cwd, rec.file, rec.args),
                        );
                    }
                }
            }
        }
    }
    Ok(())
}

fn reduce(case: &Case) -> Vec<Case> {
    let mut v = vec![];
    if case.depth > 0 {
        let mut c = case.clone();
        c.depth -= 1;
        v.push(c);
    }
    if !case.cmd_cont.is_empty() {
        let mut c = case.clone();
        c.cmd_cont.pop();
        c.cont_spaces.pop();
        v.push(c);
    }
    if case.exit_code != 0 {
        let mut c = case.clone();
        c.exit_code = 0;
        v.push(c);
    }
    if case.dumper.is_some() {
        let mut c = case.clone();
        c.dumper = None;
        v.push(c);
    }
    v
}

impl Prop for C17 {
    fn meta(&self) -> PropMeta {
        PropMeta {
            id: "C17",
            level: "exploration",
            rule: "cases = source at depth 0-3 below the base directory x entry point {library in-process with absolute base and unrelated cwd; library in a child process with cwd == base ('.'), cwd below base ('../..'), unrelated cwd (absolute base), cwd above base (relative name); the txtpp binary; the binary with TXTPP_FILE already set} x shell {default sh -c; an argv-dumping script with 0-2 extra configured arguments} x multi-line commands (0-3 continuation lines, prefix or space form, leading/trailing blanks) x exit status (0; 1-255 with the usual suspects favoured; a command that fails only the first time it runs and logs each execution; a shell killed by a signal) x input named by source or output name x 0-2 further sources in other directories of the same build running the textually identical `pwd` / `echo $TXTPP_FILE` commands x (configured shell) a verify run after the build. Oracle: `pwd` (or the dumper's cwd record) equals the canonical directory of the source; TXTPP_FILE joined to the base designates the source (absolute or base-relative accepted); the dumper received exactly the configured arguments followed by ONE argument equal to the lines joined by single spaces; stdout is spliced into the output; non-zero status fails the run (and the binary's exit status is non-zero); with TXTPP_FILE set the binary exits non-zero and changes nothing. Non-trivial = depth >=1 with base != cwd, or overridden shell, or multi-line command; distinct by hash.",
            assumptions: vec!["the README says TXTPP_FILE is absolute while a repository fixture pins a base-relative value: only 'designates the source' is asserted"],
            hang_is_violation: false,
            needs_cli: true,
        }
    }
    fn worker(&self, ctx: &mut WorkerCtx) {
        let total = if ctx.quick { 6_000 } else { 200_000 };
        let n = ctx.share(total);
        ctx.drive(1, n, 60, &gen_case, &check, &reduce);
    }
    fn replay(&self, case: &Value) -> Check {
        let case: Case = serde_json::from_value(case.clone()).map_err(|e| (format!("bad case: {e}"), "bad-case".to_string()))?;
        check(&case, &mut Stats::default())
    }
}
