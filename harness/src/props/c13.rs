//! C13 — the trailing-newline option controls one final line ending and nothing else.
//! Metamorphic pair relation between a build with the option on and one with it off.

use super::common::materialise;
use super::{reduce_project, show_bytes, viol, Check, Prop, PropMeta};
use crate::gen::project::{gen_project, GenParams, Project};
use crate::gen::Choices;
use crate::model::grammar::{self, Item};
use crate::model::{names, Model, Verdict};
use crate::runner::{self, ModeS, RunOpts};
use crate::wctx::{Stats, WorkerCtx};
use serde::{Deserialize, Serialize};
use serde_json::Value;

pub struct C13;

#[derive(Debug, Clone, Serialize, Deserialize)]
pub struct Case {
    pub project: Project,
    pub mode: ModeS,
    pub threads: usize,
    /// keep the files generated with the option on when building with the option off (a build
    /// must not depend on them), and build "off" first
    #[serde(default)]
    pub keep: bool,
    #[serde(default)]
    pub off_first: bool,
}

fn gen_case(c: &mut Choices) -> Case {
    let p = GenParams {
        error_rate: 3,
        max_sources: 3,
        max_items: 6,
        // dependencies are generated, but only sources WITHOUT dependency directives are
        // compared (see below): an includer legitimately differs in the middle, because the
        // included output itself loses its final line ending
        ..GenParams::default()
    };
    let mut project = gen_project(c, &p);
    if c.chance(1, 3) {
        // tiny sources: every final-state class in its smallest form (a whole output that is
        // exactly one line ending, or nothing at all)
        let k = c.below(9);
        let (name, text): (&str, &str) = match k {
            0 => ("tiny0.txt.txtpp", "\n"),
            1 => ("tiny1.txt.txtpp", "\r\n"),
            2 => ("tiny2.txt.txtpp", ""),
            3 => ("tiny3.txt.txtpp", "TXTPP#include tiny-empty.txt"),
            4 => ("tiny4.txt.txtpp", "-TXTPP#run true\n"),
            5 => ("tiny5.txt.txtpp", "x"),
            6 => ("tiny6.txt.txtpp", "TXTPP#include tiny-nl.txt\n"),
            7 => ("tiny7.txt.txtpp", "-TXTPP#write\n"),
            _ => ("tiny8.txt.txtpp", "-TXTPP#\n"),
        };
        project.put(name, text);
        project.put("tiny-empty.txt", "");
        project.put("tiny-nl.txt", "\n");
    }
    Case {
        project,
        mode: if c.chance(1, 3) { ModeS::Needed } else { ModeS::Build },
        threads: 1 + c.below(4),
        keep: c.chance(1, 2),
        off_first: c.chance(1, 3),
    }
}

fn final_state_class(src_text: &str) -> (String, Option<String>) {
    let lines = grammar::split_lines(src_text);
    let (items, stop) = grammar::parse(&lines);
    if stop.is_some() {
        return ("parse_error".into(), None);
    }
    let has_tag = items.iter().any(|i| matches!(i, Item::Dir(d, _) if d.kind == grammar::Kind::Tag));
    let nl = if src_text.is_empty() || src_text.ends_with('\n') { "nl" } else { "nonl" };
    match items.last() {
        None => ("empty_file".into(), None),
        Some(Item::Text(l)) => {
            let k = if l.is_empty() { "blank_line" } else { "text_line" };
            (format!("{k}/{nl}"), if has_tag { None } else { Some(l.clone()) })
        }
        Some(Item::Dir(d, _)) => (format!("dir_{}/{nl}", d.kind.name()), None),
    }
}

pub fn check(case: &Case, st: &mut Stats) -> Check {
    let su = materialise(&case.project);
    let mk = |tn: bool| RunOpts {
        mode: case.mode,
        trailing_newline: tn,
        threads: case.threads,
        recursive: true,
        inputs: vec![".".into()],
        shell: String::new(),
    };
    let ex = su.expect(&case.project, &mk(true));
    if let Verdict::Excluded(r) = &ex.verdict {
        st.exclude(r);
        return Ok(());
    }
    su.write(&case.project);
    let first = !case.off_first;
    let r1 = runner::run_free(&su.sc.root, &mk(first));
    let g1 = su.generated();
    if !case.keep {
        su.wipe_generated();
    }
    let r2 = runner::run_free(&su.sc.root, &mk(!first));
    let g2 = su.generated();
    let (on, gen_on, off, gen_off) = if first { (r1, g1, r2, g2) } else { (r2, g2, r1, g1) };
    st.class(if case.keep { "second_build_over_first" } else { "second_build_from_clean_tree" });
    if on.ok != off.ok {
        return viol(
            "C13 verdict-differs",
            format!("the option changes the verdict: on => ok={}, off => ok={}", on.ok, off.ok),
        );
    }
    if !on.ok {
        st.class("both_fail");
        st.nontrivial_hash(&serde_json::to_string(case).unwrap());
        return Ok(());
    }
    let sources = case.project.sources();
    let outputs: Vec<(String, String)> = sources.iter().map(|s| (s.clone(), names::output_of(s).unwrap())).collect();
    let cfg = su.cfg(true);
    let model = Model::new(&su.tree, &case.project.dirs, &cfg);
    for (p, a) in &gen_on {
        let Some(b) = gen_off.get(p) else {
            return viol("C13 file-set-differs", format!("{p} is generated only with the option on"));
        };
        if let Some((src, _)) = outputs.iter().find(|(_, o)| o == p) {
            // a source with dependencies legitimately changes in the middle (an included output,
            // or one read by a command, loses its own final line ending): for it only the end
            // of the file is judged
            let src_b = &su.tree[src];
            let includer = !model.syntactic_deps(src).is_empty();
            if includer {
                st.class("source_with_dependency:end_only");
            }
            let le: &[u8] = match src_b.iter().position(|x| *x == b'\n') {
                Some(i) if i > 0 && src_b[i - 1] == b'\r' => b"\r\n",
                _ => b"\n",
            };
            let mut b_plus = b.clone();
            b_plus.extend_from_slice(le);
            if !includer && a != b && *a != b_plus {
                return viol(
                    "C13 more-than-final-ending",
                    format!(
                        "output {p} differs by more than one final line ending:\n  on  {}\n  off {}",
                        show_bytes(a),
                        show_bytes(b)
                    ),
                );
            }
            let text = String::from_utf8_lossy(src_b).to_string();
            let (class, last_text) = final_state_class(&text);
            st.class(&format!("final:{class}/{}", if le.len() == 2 { "crlf" } else { "lf" }));
            st.nontrivial_hash(&(text.clone(), case.mode));
            if let Some(l) = last_text {
                // source ends with an ordinary text line, no tag in play
                let mut want_on = l.clone().into_bytes();
                want_on.extend_from_slice(le);
                if !a.ends_with(&want_on) {
                    return viol(
                        "C13 on-missing-final-ending",
                        format!("option on: output {p} does not end with the last text line {l:?} + line ending: {}", show_bytes(a)),
                    );
                }
                let kept = !l.is_empty() && b.ends_with(&want_on);
                if !b.ends_with(l.as_bytes()) || (!includer && *a != b_plus) || (includer && kept) {
                    return viol(
                        "C13 off-keeps-final-ending",
                        format!("option off: output {p} must end with the last text line {l:?} without line ending: {}", show_bytes(b)),
                    );
                }
            }
        } else if a != b {
            return viol(
                "C13 temp-changed",
                format!("temp file {p} depends on the option:\n  on  {}\n  off {}", show_bytes(a), show_bytes(b)),
            );
        }
    }
    for p in gen_off.keys() {
        if !gen_on.contains_key(p) {
            return viol("C13 file-set-differs", format!("{p} is generated only with the option off"));
        }
    }
    st.sample(|| serde_json::json!({"case": case}), 3);
    Ok(())
}

fn reduce(case: &Case) -> Vec<Case> {
    reduce_project(&case.project)
        .into_iter()
        .map(|p| Case { project: p, ..case.clone() })
        .collect()
}

impl Prop for C13 {
    fn meta(&self) -> PropMeta {
        PropMeta {
            id: "C13",
            level: "exploration",
            rule: "cases = generated projects (1-3 sources, plus tiny sources whose whole output is exactly one line ending or nothing) built twice in the same root, with trailing newline on and off (Build or --needed), in either order, the second build from a clean tree or over the files of the first; oracle = pair relation: same verdict; same set of generated files; every output satisfies on == off or on == off + line ending; temp files identical; if the source's last item is an ordinary text line L and the source has no tag directive, on ends with L + ending and off ends with L. Non-trivial = every compared pair; distinct by (source text, mode); classes = final-state class of the source (text/blank/each directive kind at EOF x final newline present x LF/CRLF).",
            assumptions: vec!["the final-state class and 'last item is a text line' are decided by the reference grammar"],
            hang_is_violation: false,
            needs_cli: false,
        }
    }
    fn worker(&self, ctx: &mut WorkerCtx) {
        let total = if ctx.quick { 30_000 } else { 1_000_000 };
        let n = ctx.share(total);
        ctx.drive(1, n, 400, &gen_case, &check, &reduce);
    }
    fn replay(&self, case: &Value) -> Check {
        let case: Case = serde_json::from_value(case.clone()).map_err(|e| (format!("bad case: {e}"), "bad-case".to_string()))?;
        check(&case, &mut Stats::default())
    }
}
