//! C02 / C03 / C05 — schedule-controlled dependency-graph properties.

use super::graphs::{self, check_once, dfs, subsets, GraphCase, Sched, Which};
use super::{Check, Prop, PropMeta};
use crate::gen::graph::{gen_graph, graph_from_mask, mask_is_acyclic, GraphSpec};
use crate::gen::project::ROOT;
use crate::gen::Choices;
use crate::wctx::{Stats, Violation, WorkerCtx};
use serde_json::Value;

pub struct GraphProp(pub Which);

fn names_of(g: &GraphSpec, set: &[usize]) -> Vec<String> {
    set.iter().map(|i| g.out_path(*i)).collect()
}

/// the same file named in different ways
fn alias(g: &GraphSpec, i: usize, form: usize) -> String {
    let out = g.out_path(i);
    match form % 5 {
        0 => out,
        1 => g.src_path(i),
        2 => format!("./{out}"),
        3 => format!("d/../{out}"),
        _ => format!("{ROOT}/{out}"),
    }
}

fn full_pool(g: &GraphSpec) -> usize {
    2 * g.n + 3
}

fn mix_bits(i: u64) -> u64 {
    // cheap deterministic bit mixer (splitmix64 finaliser)
    let mut z = i.wrapping_add(0x9e3779b97f4a7c15);
    z = (z ^ (z >> 30)).wrapping_mul(0xbf58476d1ce4e5b9);
    z = (z ^ (z >> 27)).wrapping_mul(0x94d049bb133111eb);
    z ^ (z >> 31)
}

fn record_failure(ctx: &mut WorkerCtx, which: Which, f: (GraphCase, String, String)) {
    // shrink structurally, keeping the (now explicit) schedule: try candidates with a full DFS
    let (mut case, mut msg, mut sig) = f;
    let mut rounds = 0;
    loop {
        rounds += 1;
        let mut improved = false;
        for cand in graphs::reduce(&case) {
            let mut st = Stats::default();
            let mut ff = None;
            let mut base = cand.clone();
            base.sched = Sched::Prefix(vec![]);
            dfs(&base, which, 3000, &mut st, &mut ff);
            if let Some((c2, m2, s2)) = ff {
                case = c2;
                msg = m2;
                sig = s2;
                improved = true;
                break;
            }
        }
        if !improved || rounds > 60 {
            break;
        }
    }
    ctx.stats.violations.push(Violation { message: msg, signature: sig, case: serde_json::to_value(&case).unwrap() });
}

impl GraphProp {
    fn exhaustive(&self, ctx: &mut WorkerCtx) -> bool {
        let which = self.0;
        let quick = ctx.quick;
        let cap = if quick { 2_000 } else { 50_000 };
        let mut first_fail = None;
        let mut idx = 0u64;
        let mut cases = 0u64;
        let max_n = match (which, quick) {
            (Which::C02, true) => 4,
            (Which::C02, false) => 4,
            (_, true) => 3,
            (_, false) => 3,
        };
        let sample_sets = quick && which == Which::C02;
        let mut scope_runs = 0u64;
        for n in 1..=max_n {
            for mask in 0u64..(1u64 << (n * n)) {
                let acyclic = mask_is_acyclic(n, mask);
                if which == Which::C02 && !acyclic {
                    continue;
                }
                let all_sets = subsets(n);
                let pick = mix_bits(mask ^ 0x5bd1e995) as usize;
                for (set_i, set) in all_sets.iter().cloned().enumerate() {
                    // quick tier, largest size: two requested subsets per graph (the full
                    // request and one other) instead of all of them
                    if sample_sets && n == max_n && set_i + 1 != all_sets.len() && (n == 4 || set_i != pick % all_sets.len()) {
                        continue;
                    }
                    // variants of (inputs, stale)
                    let mut variants: Vec<(Vec<String>, bool, bool)> = vec![];
                    let bits = mix_bits(idx);
                    let mut g0 = graph_from_mask(n, mask, bits, bits >> 20, &[]);
                    g0.no_solo = which == Which::C02;
                    g0.eof_dep = bits >> 45 & 3 == 0;
                    match which {
                        Which::C02 => {
                            if sample_sets && n == max_n {
                                variants.push((names_of(&g0, &set), false, mask.count_ones() % 2 == 1));
                            } else {
                                variants.push((names_of(&g0, &set), false, false));
                                variants.push((names_of(&g0, &set), false, true));
                            }
                        }
                        Which::C05 => {
                            variants.push((names_of(&g0, &set), false, bits >> 40 & 1 == 1));
                        }
                        Which::C03 => {
                            variants.push((names_of(&g0, &set), false, false));
                            // aliases + a duplicate of the first file under another name
                            let mut al: Vec<String> = set.iter().enumerate().map(|(k, i)| alias(&g0, *i, (bits >> (3 * k)) as usize)).collect();
                            al.push(alias(&g0, set[0], (bits >> 13) as usize + 1));
                            variants.push((al, false, bits >> 41 & 1 == 1));
                            if set.len() == 1 {
                                // the containing directory, alone and together with the file
                                variants.push((vec![".".into()], bits >> 42 & 1 == 1, false));
                                variants.push((vec![".".into(), alias(&g0, set[0], (bits >> 14) as usize)], false, false));
                                // the same directory reached twice (two spellings); the second
                                // scan multiplies the order space, so only for <=2 files here
                                // (larger ones in the sampled tier)
                                if n <= 2 {
                                    variants.push((vec![".".into(), "./".into()], bits >> 43 & 1 == 1, false));
                                }
                            }
                        }
                    }
                    for (inputs, recursive, stale) in variants {
                        idx += 1;
                        if idx % ctx.nshards as u64 != ctx.shard as u64 {
                            continue;
                        }
                        let base = GraphCase {
                            graph: g0.clone(),
                            inputs,
                            recursive,
                            stale,
                            threads: full_pool(&g0),
                            sched: Sched::Prefix(vec![]),
                            needed: false,
                            late: None,
                        };
                        let (runs, _capped) = dfs(&base, which, cap, &mut ctx.stats, &mut first_fail);
                        scope_runs += runs;
                        cases += 1;
                        if cases % 16 == 0 {
                            ctx.heartbeat();
                        }
                        if first_fail.is_some() {
                            break;
                        }
                    }
                    if first_fail.is_some() {
                        break;
                    }
                }
                if first_fail.is_some() {
                    break;
                }
            }
            if first_fail.is_some() {
                break;
            }
        }
        ctx.stats.count("exhaustive_cases", cases);
        ctx.stats.exhaustive.insert(
            format!(
                "{} on <={max_n} files x {} x all completion orders",
                if which == Which::C02 { "all labelled DAGs" } else { "all digraphs with self-loops" },
                if sample_sets { format!("all requested subsets and both pre-states (<{max_n} files) / the full request, one pre-state ({max_n} files)") } else { "all requested subsets".to_string() }
            ),
            scope_runs,
        );
        if let Some(f) = first_fail {
            record_failure(ctx, which, f);
            return false;
        }
        true
    }
}

fn gen_sampled(which: Which) -> impl Fn(&mut Choices) -> GraphCase {
    move |c: &mut Choices| {
        let acyclic = which == Which::C02 || (which == Which::C03 && c.chance(1, 2));
        let (lo, hi) = match which {
            Which::C02 => (3, 6),
            Which::C03 => (2, 6),
            Which::C05 => (3, 7),
        };
        let g = gen_graph(c, lo, hi, acyclic, which != Which::C05);
        // inputs
        let mut inputs = vec![];
        let k = 1 + c.below(g.n.min(3));
        for _ in 0..k {
            let i = c.below(g.n);
            let form = if which == Which::C03 { c.below(5) } else if which == Which::C02 { c.below(2) * 2 } else { 0 };
            inputs.push(alias(&g, i, form));
        }
        let mut recursive = false;
        if which == Which::C02 && c.chance(1, 4) {
            // the whole tree through a recursive scan, possibly together with file inputs: files
            // are then discovered both as dependencies and by scans
            if c.chance(1, 2) {
                inputs.clear();
            }
            inputs.push(".".to_string());
            recursive = true;
        }
        if which == Which::C03 && c.chance(1, 3) {
            inputs.push((*c.pick(&[".", "s", "./s/t"])).to_string());
            recursive = c.chance(1, 2);
            if c.chance(1, 2) {
                // a second directory: the same one again, another spelling, or one that a
                // recursive scan of the first also reaches
                inputs.push((*c.pick(&[".", "s", "./s/t", "s/../s", "./"])).to_string());
            }
        }
        let free = c.chance(1, 8);
        let threads = if free { 1 + c.below(16) } else { *c.pick(&[full_pool(&g), full_pool(&g), 1, 2, 3]) };
        let sched = if free {
            Sched::Free
        } else {
            let n = c.below(24);
            Sched::Stream((0..n).map(|_| c.raw()).collect())
        };
        let stale = c.chance(1, 2);
        let needed = c.chance(1, 4);
        let late = if which != Which::C05 && c.chance(1, 6) { Some(c.below(g.n)) } else { None };
        GraphCase { graph: g, inputs, recursive, stale, threads, sched, needed, late }
    }
}

impl Prop for GraphProp {
    fn meta(&self) -> PropMeta {
        match self.0 {
            Which::C02 => PropMeta {
                id: "C02",
                level: "exploration",
                rule: "cases = (dependency DAG, requested subset, stale-or-absent pre-existing outputs, completion order). Exhaustive scope: every labelled DAG on <=3 (thorough <=4) files x every non-empty requested subset x {absent, stale pre-seeded outputs} x EVERY order in which gated worker tasks can complete (DFS by re-execution under the schedule controller, pool large enough for the full order space); edges alternate between `include X` and `after X` + `run cat X`. Sampled scope: generated DAGs of 3-6 files in nested directories (dependencies named through `../`), inputs by output name, by source name or as a recursive directory scan, build or --needed mode, x random schedules x pool sizes {1,2,3,full} and free-running real concurrency (1-16 threads); thorough adds sampled 5-file DAGs with a capped DFS. Oracle: on success every required output equals the reference model (= one-at-a-time processing in dependency order; a stale or partial dependency changes the bytes), and on the hook trace the final pass of A begins only after the final pass of each dependency of A has ended. Non-trivial = at least one edge between required files and at least one step with >=2 gated tasks; distinct by (graph, request, schedule) by construction in the DFS, by hash when sampled.",
                assumptions: vec![
                    "the controller serialises task executions (sound for projects whose tasks write only their own outputs); truly overlapping execution is sampled by the free-running runs",
                    "hooks: feature `verif` (add-only)",
                ],
                hang_is_violation: false,
                needs_cli: false,
            },
            Which::C03 => PropMeta {
                id: "C03",
                level: "exploration",
                rule: "cases = (digraph incl. cycles and self-loops, input list, completion order). Exhaustive scope: every digraph on <=3 files x every requested subset x input variants {plain names; aliases (source name, ./x, d/../x, absolute) plus a duplicate of one file under another name; the containing directory alone / together with a file} x every completion order (DFS). Sampled: generated graphs of 2-6 files in nested directories, alias/duplicate/directory inputs, recursive on/off, random schedules, pool sizes {1,2,3,full}, free-running. Oracle: the run returns (logical deadlock detection at the coordinator's idle poll, no clock); success only if no required file reaches a cycle; on success every required output exists and equals the model; marker files: every command in a dependency-free file and every command after a dependency directive ran exactly once (commands before the first dependency directive of a file with dependencies: 1..2); trace: exactly one first pass and at most one second pass per required file, none for other files. A last tier takes acyclic DAGs with one faulty file (the fault cases of C04, every mode, controlled and free schedules) and only requires that the run returns. Non-trivial = >=2 required files and (alias/duplicate/directory input or shared dependency) and a branching step.",
                assumptions: vec!["hooks: feature `verif`; a hang inside a task (not the coordinator) is only caught by the orchestrator's clock backstop"],
                hang_is_violation: true,
                needs_cli: false,
            },
            Which::C05 => PropMeta {
                id: "C05",
                level: "exploration",
                rule: "cases = (digraph with self-loops, requested subset, completion order). Exhaustive scope: all 530 digraphs with self-loops on <=3 files x every non-empty requested subset x every completion order (DFS by re-execution). Sampled: generated digraphs of 3-7 files x random schedules and free-running concurrency (thorough: additionally uniformly sampled 4-file digraphs with DFS). Oracle: R = closure of the request, K = members of R that can reach a cycle (graph computation, cross-checked with the model): K non-empty => the run returns an error (and returns: logical deadlock detection) and every member of R\\K has its output equal to the model; K empty => success and all outputs equal the model. A last tier takes acyclic DAGs with ONE other fault in one file (the fault cases of C04: failing or signal-killed command, bad directive, missing / invalid include, unreadable source, occupied paths, stale output under verify; build / needed / verify; controlled schedules): the run may fail, but never with a circular-dependency report. Non-trivial = K non-empty with R\\K non-empty, or K empty with >=1 edge.",
                assumptions: vec!["hooks: feature `verif`"],
                hang_is_violation: true,
                needs_cli: false,
            },
        }
    }

    fn worker(&self, ctx: &mut WorkerCtx) {
        let which = self.0;
        if !self.exhaustive(ctx) {
            return;
        }
        if which != Which::C02 && !ctx.quick {
            // uniformly sampled 4-file digraphs, DFS with a cap
            let n_samples = ctx.share(4_000);
            let mut first_fail = None;
            for k in 0..n_samples {
                let r = mix_bits(crate::wctx::mix(ctx.seed, if which == Which::C03 { "C03-4" } else { "C05-4" }, ctx.shard, k));
                let mask = r & 0xffff;
                let g = graph_from_mask(4, mask, r >> 16, mix_bits(r) & !0x3ff, &[]);
                let sets = subsets(4);
                let set = &sets[(r >> 40) as usize % sets.len()];
                let inputs = if which == Which::C03 && r >> 51 & 1 == 1 {
                    let mut al: Vec<String> = set.iter().enumerate().map(|(k, i)| alias(&g, *i, (r >> (52 + 2 * k)) as usize)).collect();
                    al.push(alias(&g, set[0], (r >> 60) as usize + 1));
                    al
                } else {
                    names_of(&g, set)
                };
                let base = GraphCase {
                    graph: g.clone(),
                    inputs,
                    recursive: false,
                    stale: r >> 50 & 1 == 1,
                    threads: full_pool(&g),
                    sched: Sched::Prefix(vec![]),
                    needed: r >> 61 & 3 == 0,
                    late: None,
                };
                dfs(&base, which, 400, &mut ctx.stats, &mut first_fail);
                if k % 8 == 0 {
                    ctx.heartbeat();
                }
                if first_fail.is_some() {
                    break;
                }
            }
            if let Some(f) = first_fail {
                record_failure(ctx, which, f);
                return;
            }
        }
        if which == Which::C02 && !ctx.quick {
            // sampled labelled DAGs on 5 files (random order + random lower-triangular edge set),
            // full request, every completion order up to a cap
            let n_samples = ctx.share(800);
            let mut first_fail = None;
            for k in 0..n_samples {
                let mut r = mix_bits(crate::wctx::mix(ctx.seed, "C02-5", ctx.shard, k));
                let n = 5usize;
                let mut perm: Vec<usize> = (0..n).collect();
                for i in (1..n).rev() {
                    let j = (r % (i as u64 + 1)) as usize;
                    r = mix_bits(r);
                    perm.swap(i, j);
                }
                let mut mask = 0u64;
                for a in 0..n {
                    for b in 0..a {
                        if r & 3 == 0 {
                            mask |= 1 << (perm[a] * n + perm[b]);
                        }
                        r = r.rotate_right(2) ^ 0x9e37;
                    }
                }
                let bits = mix_bits(r);
                let mut g = graph_from_mask(n, mask, bits, bits >> 20 & !0x3ff, &[]);
                g.no_solo = true;
                let base = GraphCase {
                    graph: g.clone(),
                    inputs: names_of(&g, &(0..n).collect::<Vec<_>>()),
                    recursive: false,
                    stale: bits >> 40 & 1 == 1,
                    threads: full_pool(&g),
                    sched: Sched::Prefix(vec![]),
                    needed: bits >> 41 & 3 == 0,
                    late: None,
                };
                dfs(&base, which, 600, &mut ctx.stats, &mut first_fail);
                if first_fail.is_some() {
                    break;
                }
            }
            ctx.stats.count("sampled_5_file_dags", n_samples);
            if let Some(f) = first_fail {
                record_failure(ctx, which, f);
                return;
            }
        }
        let total = match (which, ctx.quick) {
            (Which::C05, true) => 24_000,
            (_, true) => 8_000,
            (Which::C05, false) => 1_000_000,
            (Which::C03, false) => 900_000,
            (_, false) => 300_000,
        };
        let n = ctx.share(total);
        let gen = gen_sampled(which);
        let chk = move |c: &GraphCase, st: &mut Stats| -> Check { check_once(c, which, st) };
        let red = |c: &GraphCase| graphs::reduce(c);
        ctx.drive(3, n, 120, &gen, &chk, &red);
        if which == Which::C05 && ctx.stats.violations.is_empty() {
            // "a project without cycles never gets a circular-dependency failure": acyclic DAGs
            // with one faulty file (C04's fault cases) must fail with the real error
            let n = ctx.share(if ctx.quick { 3_000 } else { 80_000 });
            let gen = |c: &mut Choices| super::c04::gen_directive_case(c);
            let chk = |c: &super::c04::Case, st: &mut Stats| -> Check {
                st.class("acyclic_with_other_fault");
                super::c04::check_cycle_misreport(c, st)
            };
            let red = |_c: &super::c04::Case| -> Vec<super::c04::Case> { vec![] };
            ctx.drive(4, n, 200, &gen, &chk, &red);
        }
        if which == Which::C03 && ctx.stats.violations.is_empty() {
            // "for every project ... the run terminates": also when one file fails (C04's fault
            // cases; only the return is judged here)
            let n = ctx.share(if ctx.quick { 3_000 } else { 60_000 });
            let gen = |c: &mut Choices| super::c04::gen_directive_case(c);
            let chk = |c: &super::c04::Case, st: &mut Stats| -> Check {
                st.class("one_file_fails_run_returns");
                super::c04::check_terminates(c, st)
            };
            let red = |_c: &super::c04::Case| -> Vec<super::c04::Case> { vec![] };
            ctx.drive(5, n, 200, &gen, &chk, &red);
        }
    }

    fn replay(&self, case: &Value) -> Check {
        if case.get("Directive").is_some() {
            let c: super::c04::Case = serde_json::from_value(case.clone()).map_err(|e| (format!("bad case: {e}"), "bad-case".to_string()))?;
            return if self.0 == Which::C03 {
                super::c04::check_terminates(&c, &mut Stats::default())
            } else {
                super::c04::check_cycle_misreport(&c, &mut Stats::default())
            };
        }
        let case: GraphCase = serde_json::from_value(case.clone()).map_err(|e| (format!("bad case: {e}"), "bad-case".to_string()))?;
        check_once(&case, self.0, &mut Stats::default())
    }
}
