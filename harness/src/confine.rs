//! Landlock confinement (raw syscalls; no crate needed). Used by C18, which feeds arbitrary
//! directive arguments (paths for temp/include) to txtpp: after `confine`, the process and its
//! children can read/execute system directories and read/write only the given scratch
//! directories, so `TXTPP#temp /etc/x` or `TXTPP#include /dev/zero` become ordinary I/O errors.

use std::ffi::CString;
use std::path::Path;

const SYS_CREATE_RULESET: libc::c_long = 444;
const SYS_ADD_RULE: libc::c_long = 445;
const SYS_RESTRICT_SELF: libc::c_long = 446;

const EXECUTE: u64 = 1 << 0;
const WRITE_FILE: u64 = 1 << 1;
const READ_FILE: u64 = 1 << 2;
const READ_DIR: u64 = 1 << 3;
const REMOVE_DIR: u64 = 1 << 4;
const REMOVE_FILE: u64 = 1 << 5;
const MAKE_CHAR: u64 = 1 << 6;
const MAKE_DIR: u64 = 1 << 7;
const MAKE_REG: u64 = 1 << 8;
const MAKE_SOCK: u64 = 1 << 9;
const MAKE_FIFO: u64 = 1 << 10;
const MAKE_BLOCK: u64 = 1 << 11;
const MAKE_SYM: u64 = 1 << 12;
const REFER: u64 = 1 << 13;
const TRUNCATE: u64 = 1 << 14;

#[repr(C)]
struct RulesetAttr {
    handled_access_fs: u64,
}

#[repr(C, packed)]
struct PathBeneathAttr {
    allowed_access: u64,
    parent_fd: i32,
}

fn abi() -> i64 {
    unsafe { libc::syscall(SYS_CREATE_RULESET, std::ptr::null::<u8>(), 0usize, 1u32) as i64 }
}

fn add(ruleset: i32, path: &Path, access: u64) -> bool {
    use std::os::unix::ffi::OsStrExt;
    let Ok(c) = CString::new(path.as_os_str().as_bytes()) else { return false };
    let fd = unsafe { libc::open(c.as_ptr(), libc::O_PATH | libc::O_CLOEXEC) };
    if fd < 0 {
        return false;
    }
    let attr = PathBeneathAttr { allowed_access: access, parent_fd: fd };
    let r = unsafe { libc::syscall(SYS_ADD_RULE, ruleset, 1u32, &attr as *const PathBeneathAttr, 0u32) };
    unsafe { libc::close(fd) };
    r == 0
}

/// Returns Ok(abi version) when the process is now confined, Err(reason) otherwise.
pub fn confine(read_write: &[&Path]) -> Result<i64, String> {
    let v = abi();
    if v < 1 {
        return Err(format!("landlock not available (abi query returned {v})"));
    }
    let mut handled = EXECUTE | WRITE_FILE | READ_FILE | READ_DIR | REMOVE_DIR | REMOVE_FILE | MAKE_CHAR | MAKE_DIR | MAKE_REG | MAKE_SOCK | MAKE_FIFO | MAKE_BLOCK | MAKE_SYM;
    if v >= 2 {
        handled |= REFER;
    }
    if v >= 3 {
        handled |= TRUNCATE;
    }
    let attr = RulesetAttr { handled_access_fs: handled };
    let rs = unsafe { libc::syscall(SYS_CREATE_RULESET, &attr as *const RulesetAttr, std::mem::size_of::<RulesetAttr>(), 0u32) } as i32;
    if rs < 0 {
        return Err(format!("landlock_create_ruleset failed: {}", std::io::Error::last_os_error()));
    }
    let ro = EXECUTE | READ_FILE | READ_DIR;
    for p in ["/usr", "/bin", "/sbin", "/lib", "/lib64", "/lib32", "/etc", "/opt", "/root/.cargo", "/root/.rustup", "/verif/target"] {
        let path = Path::new(p);
        if path.exists() {
            add(rs, path, ro);
        }
    }
    let file_rw = READ_FILE | WRITE_FILE | if v >= 3 { TRUNCATE } else { 0 };
    add(rs, Path::new("/dev/null"), file_rw);
    for p in read_write {
        if !add(rs, p, handled) {
            unsafe { libc::close(rs) };
            return Err(format!("cannot add rule for {}", p.display()));
        }
    }
    unsafe {
        if libc::prctl(libc::PR_SET_NO_NEW_PRIVS, 1, 0, 0, 0) != 0 {
            libc::close(rs);
            return Err("prctl(PR_SET_NO_NEW_PRIVS) failed".into());
        }
        let r = libc::syscall(SYS_RESTRICT_SELF, rs, 0u32);
        libc::close(rs);
        if r != 0 {
            return Err(format!("landlock_restrict_self failed: {}", std::io::Error::last_os_error()));
        }
    }
    Ok(v)
}
