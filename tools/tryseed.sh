#!/bin/sh
# usage: tools/tryseed.sh <name> <ID>...  — apply seeded/<name>/patch.diff to /repo, run quick checks, revert
N=$1; shift
git -C /repo apply /verif/seeded/$N/patch.diff || exit 3
for id in "$@"; do
  out=$(/verif/check $id quick 2>&1); rc=$?
  echo "== seeded/$N $id rc=$rc"
  echo "$out" | grep -a -E "VIOLATION|BUILD FAILURE|INFRA" | head -2
  echo "$out" | grep -a -A3 "VIOLATION" | sed -n '2,4p' | cut -c1-400
done
git -C /repo checkout -- .
