#!/bin/bash
# usage: tools/importseed.sh <ID> [name]  — confirm a sub-agent's seeded change in its scratch worktree
# (/tmp/wt/<ID>), then store it as /verif/seeded/<name>/ (patch.diff, demo, NOTES.md, meta.json)
ID=$1; NAME=${2:-$ID}; W=${3:-/tmp/wt}/$ID; S=$W/SEEDED; D=/verif/seeded/$NAME
[ -f $S/patch.diff ] || { echo "no patch"; exit 1; }
cd $W || exit 1
rm -f tests/seeded_demo*.rs
git checkout -q -- . 2>/dev/null
# 1. applies, builds with and without the feature
git apply $S/patch.diff || { echo "patch does not apply"; exit 1; }
cargo build --offline -q 2>&1 | tail -3; b1=${PIPESTATUS[0]}
cargo build --offline -q --features verif 2>&1 | tail -3; b2=${PIPESTATUS[0]}
# 2. existing suite passes
suite=$(cargo test --workspace --no-fail-fast --offline 2>&1 | grep -E "^test result" | tr '\n' ';')
echo "suite with patch: $suite"
# 3. demo fails with the patch
demo_rs=$(ls $S/*.rs 2>/dev/null | head -1); demo_sh=$(ls $S/*.sh 2>/dev/null | grep -v run_demo | head -1)
run_demo() {
  if [ -n "$demo_rs" ]; then cp $demo_rs tests/seeded_demo.rs; cargo test --offline --test seeded_demo 2>&1 | grep -E "^test result" | tail -1; rm -f tests/seeded_demo.rs
  elif [ -n "$demo_sh" ]; then sh $demo_sh >/dev/null 2>&1; echo "script exit $?"; fi
}
with=$(run_demo); echo "demo with patch:    $with"
git apply -R $S/patch.diff
without=$(run_demo); echo "demo without patch: $without"
git apply $S/patch.diff
mkdir -p $D && cp $S/patch.diff $D/ && cp $S/NOTES.md $D/ 2>/dev/null; [ -n "$demo_rs" ] && cp $demo_rs $D/; [ -n "$demo_sh" ] && cp $demo_sh $D/
python3 - "$ID" "$NAME" "$b1" "$b2" "$suite" "$with" "$without" <<'PY'
import json,sys
i,name,b1,b2,suite,w,wo=sys.argv[1:8]
json.dump({"property":i,"name":name,"builds":{"default":b1=="0","verif":b2=="0"},"existing_suite_with_patch":suite,
 "demo_with_patch":w,"demo_without_patch":wo,"needs":"see NOTES.md","confirmed_in":"a scratch git worktree of /repo under /tmp (removed afterwards)"},
 open(f"/verif/seeded/{name}/meta.json","w"),indent=1)
PY
echo "stored in $D"
