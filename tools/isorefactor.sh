#!/bin/sh
# usage: tools/isorefactor.sh <worktree> <diff>... — apply a behaviour-preserving change in a scratch
# worktree, run every quick check against it in isolation (expected: silence), revert.
W=$1; shift
for d in "$@"; do
  git -C $W checkout -q -- . ; git -C $W apply $d || { echo "cannot apply $d"; continue; }
  echo "##### $(basename $W)/$(basename $d)"
  /verif/tools/isoseed.sh $W C01 C02 C03 C04 C05 C06 C07 C08 C09 C10 C11 C12 C13 C14 C15 C16 C17 C18 2>&1 | grep -a -E "^==|VIOLATION|INFRA|^  \[" | cut -c1-260
  git -C $W checkout -q -- .
done
