#!/bin/sh
# usage: tools/isoseed.sh <repo-copy-dir> <ID>...  — development helper: build the work copy of the
# harness (/tmp/hwork/harness) against a scratch copy/worktree of the repository (with a seeded
# change applied) and run quick checks, without touching /repo, /verif/evidence or /verif/replays.
R=$(realpath $1); shift
W=${VFY_WORK:-/tmp/hwork}; H=$W/harness; T=$W/target-$(basename $R); O=$W/out-$(basename $R)
mkdir -p $O
sed -i "s|^txtpp = { path = \"[^\"]*\"|txtpp = { path = \"$R\"|" $H/Cargo.toml
( cd $H && cargo build --release --offline --target-dir $T 2>&1 | grep -E "^error" -A8 | head -20 )
( cd $R && cargo build --release --offline --features cli --bin txtpp --target-dir $T/cli 2>&1 | grep -E "^error" -A8 | head )
for id in "$@"; do
  out=$(VFY_OUT=$O VFY_CLI=$T/cli/release/txtpp $T/release/vfy check $id --tier quick 2>&1); rc=$?
  echo "== $(basename $(dirname $R))/$(basename $R) $id rc=$rc"
  echo "$out" | grep -a -E "VIOLATION|INFRA" | head -2
  echo "$out" | grep -a -A3 "VIOLATION" | sed -n '2,4p' | cut -c1-400
done
