#!/usr/bin/env python3
"""Create /verif/mutants/<name>.diff from a textual replacement in /repo (working tree is restored)."""
import subprocess, sys
name, path, old, new = sys.argv[1:5]
p = '/repo/' + path
s = open(p).read()
assert s.count(old) >= 1, "pattern not found"
open(p, 'w').write(s.replace(old, new, 1))
d = subprocess.run(['git', '-C', '/repo', 'diff'], capture_output=True, text=True).stdout
open(f'/verif/mutants/{name}.diff', 'w').write(d)
subprocess.run(['git', '-C', '/repo', 'checkout', '--', '.'])
print(d)
