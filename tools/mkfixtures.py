#!/usr/bin/env python3
"""Turn the repository's golden fixtures (tests/examples) into C01 regress cases that anchor the
reference model: for each fixture the model (when the fixture is inside its command vocabulary)
AND txtpp must reproduce the golden files / the golden verdict."""
import json, os, sys
EX='/repo/tests/examples'; OUT='/verif/regress/C01'
def tree(d):
    files={}
    for root,_,fs in os.walk(d):
        for f in fs:
            p=os.path.join(root,f); rel=os.path.relpath(p,d)
            b=open(p,'rb').read()
            try: files[rel]=b.decode('utf-8')
            except UnicodeDecodeError: files[rel]=list(b)
    return files
# (fixture dir, inputs, trailing_newline, expect_ok, {output: golden file})
F=[
 ('empty_test',['.'],True,True,{'empty1':'empty1.txtpp','empty2':'empty2.txtpp','emptyempty':'emptyempty.txtpp'}),
 ('include',['.'],True,True,{'foo.txt':'foo.txt.expected','biz.txt':'biz.txt.expected'}),
 ('include',['a.txt'],True,False,{}),
 ('include',['a.txtpp'],True,False,{}),
 ('multiple_include',['.'],True,True,{'a':'a.expected','b':'b.expected','c':'c.expected'}),
 ('run',['foo.txt.txtpp'],True,True,{'foo.txt':'foo.txt.expected'}),
 ('run',['invalid.txtpp'],True,False,{}),
 ('circular_dep',['a.txt'],True,False,{}),
 ('circular_dep_self',['.'],True,False,{}),
 ('temp/write_clean',['.'],True,True,{'exp':'exp.expected','temp.out':'temp.out.expected'}),
 ('temp/python_script',['.'],True,True,{'city.js':'city.js.expected','gen_cities.g.py':'gen_cities.g.py.expected'}),
 ('trailing_newline',['.'],True,True,{'source':'source.expected.trailing'}),
 ('trailing_newline',['.'],False,True,{'source':'source.expected'}),
 ('tag/inject_one',['.'],True,True,{'a':'a.expected'}),
 ('tag/inject_serial',['.'],True,True,{'b.html':'b.html.expected'}),
 ('tag/inject_multiple',['.'],True,True,{'test.txt':'test.txt.expected'}),
 ('tag/no_output_skip',['.'],True,True,{'test':'test.expected','temp':'temp.expected'}),
 ('tag/error',['tag_multiple_same'],True,False,{}),
 ('tag/error',['tag_multiple_prefix'],True,False,{}),
 ('tag/error',['tag_multiple_prefix2'],True,False,{}),
 ('tag/inject_once',['.'],True,True,{'test':'test.expected'}),
 ('tag/unused_at_end',['.'],True,False,{}),
 ('tag/complex',['.'],True,True,{'test':'test.expected'}),
 ('temp/save_txtpp',['.'],True,False,{}),
 ('write/normal',['.'],True,True,{'nonewline':'nonewline.expected','newline':'newline.expected'}),
 ('write/escape',['.'],True,True,{'test':'test.expected'}),
 ('write/inject_tags',['.'],True,True,{'test':'test.expected'}),
 ('temp/no_rewrite',['.'],True,True,{'test':'test.expected'}),
 ('after',['example'],True,True,{'example':'example.expected'}),
]
os.makedirs(OUT,exist_ok=True)
n=0
for d,inputs,tn,ok,gold in F:
    files=tree(os.path.join(EX,d))
    golden={}
    for out,g in gold.items():
        golden[out]=files[g]
    # the golden files themselves are ordinary files of the tree; outputs must not pre-exist
    name='fixture-'+d.replace('/','-')+'-'+('-'.join(i.replace('.','dot').replace('/','_') for i in inputs))+('' if tn else '-notrailing')
    case={"project":{"files":files,"dirs":[]},
          "opts":{"mode":"Build","trailing_newline":tn,"threads":4,"recursive":False,"inputs":inputs,"shell":""},
          "golden":{"expect_ok":ok,"files":golden}}
    json.dump({"property":"C01","note":f"repository fixture tests/examples/{d} (golden anchor for the reference model and for txtpp)","case":case},
              open(os.path.join(OUT,name+'.json'),'w'),indent=1)
    n+=1
print(n,"fixture cases written")
