#!/bin/sh
# usage: tools/thorough.sh "<ids>" [seed]
for p in $1; do
  s=$(date +%s)
  out=$(VERIF_SEED=${2:-0} /verif/check $p thorough 2>&1); rc=$?
  e=$(date +%s)
  echo "$p thorough rc=$rc wall=$((e-s))s $(echo "$out" | grep -a evaluations | tail -1)"
  echo "$out" | grep -a "libFuzzer" | tail -1
  [ $rc -ne 0 ] && echo "$out" | grep -a -A8 -E "VIOLATION|INFRA" | head -30
done
