#!/bin/sh
# usage: tools/silence.sh "<seeds>" [tier] — every check on the unchanged tree for several seeds
TIER=${2:-quick}
for s in $1; do
  for p in C01 C02 C03 C04 C05 C06 C07 C08 C09 C10 C11 C12 C13 C14 C15 C16 C17 C18; do
    out=$(VERIF_SEED=$s /verif/check $p $TIER 2>&1); rc=$?
    line=$(echo "$out" | grep -a "evaluations" | tail -1)
    echo "seed=$s $p rc=$rc $line"
    [ $rc -ne 0 ] && echo "$out" | grep -a -A6 -E "VIOLATION|INFRA|KNOWN" | head -20
  done
done
