#!/bin/sh
# usage: tools/runmutant.sh <diff file> <ID>...   — apply to /repo, run the quick checks, revert
D=$(realpath "$1"); shift
git -C /repo apply "$D" || exit 3
for id in "$@"; do
  out=$(/verif/check $id quick 2>&1); rc=$?
  echo "== $(basename $D) $id rc=$rc"
  echo "$out" | grep -E "VIOLATION|BUILD FAILURE|INFRA" | head -3
  echo "$out" | grep -A4 "VIOLATION" | sed -n '2,5p' | cut -c1-300
done
git -C /repo checkout -- .
