#!/usr/bin/env python3
"""Regenerate /verif/MANIFEST.json. Properties listed in CLAIMED are claimed; every other
property of properties.jsonl goes to not_applicable with the reason given in NOT_YET."""
import json, subprocess

CLAIMED = {
 "C01": dict(level="exploration", design="5 C01, 4.1-4.3",
   technique="property-based testing: generated multi-file projects vs. an independent reference model of the README semantics (both directions), proptest-driven choice sequences, structural shrinking",
   text="Generated-input search: thousands of generated multi-directive, multi-file projects per run are built with the real library and compared byte for byte (outputs, temp files, nothing else created, verdict) with a reference model written from the README; failures shrink to a few-line project. This explores the combinatorial interaction space the fixtures sample once each; it does not establish absence of violations.",
   note="Trusts the reference model (harness/src/model, anchored by the repository's golden fixtures and by mutation runs), dash as /bin/sh, and the §4.3 domain (out-of-domain cases are excluded and counted)."),
}

NOT_YET = "check not built yet in this revision of /verif (see DESIGN.md section 5 for the planned generated-input check); not claimed until its machinery exists"

props = [json.loads(l) for l in open('/verif/properties.jsonl')]
hooks_commits = subprocess.run(["git","-C","/repo","log","--format=%H","--grep=verification hooks","--grep=verif:"],capture_output=True,text=True).stdout.split()

checks = []
na = []
for p in props:
    i = p["id"]
    if i in CLAIMED:
        c = CLAIMED[i]
        checks.append({
          "property_id": i,
          "quick_cmd": f"./check {i} quick",
          "thorough_cmd": f"./check {i} thorough",
          "evidence_file": f"/verif/evidence/{i}.json",
          "replay_cmd_template": "./check --replay {path}",
          "engine": "vfy",
          "level_claimed": {"category": c["level"], "text": c["text"], "design_ref": "DESIGN.md section " + c["design"]},
          "level_note": c["note"],
          "technique": c["technique"],
        })
    else:
        na.append({"property_id": i, "reason": NOT_YET})

m = {
 "version": 1,
 "setup_cmd": "./check --setup",
 "hooks": {
   "guard": "cargo feature `verif` (off by default)",
   "enable": "the harness depends on txtpp with features=[\"verif\"] (harness/Cargo.toml); the CLI binary is built without it",
   "baseline_off_cmd": "cd /repo && cargo test --workspace --no-fail-fast --offline",
   "source_commits": hooks_commits,
   "add_only": True,
 },
 "engines": [
   {"name": "vfy", "path": "/verif/harness", "serves_properties": [c["property_id"] for c in checks],
    "kind_free_text": "Rust harness: proptest-driven generators (choice sequences), bounded-exhaustive enumerators, reference model, schedule controller over the `verif` hooks, fault injection, 16 worker processes, journal + watchdog, JSON replay files"},
 ],
 "checks": checks,
 "not_applicable": na,
 "notes": "Exit status of every check: 0 held on everything explored, 1 violation (VIOLATION line with replay file), 2 infrastructure trouble (build failure, lost worker, watchdog) - never a verdict. VERIF_SEED selects the pseudo-random stream; VERIF_TIER overrides the tier; VERIF_WORKERS the number of worker processes.",
}
json.dump(m, open('/verif/MANIFEST.json','w'), indent=1)
print("claimed:", [c["property_id"] for c in checks])
