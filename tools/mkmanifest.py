#!/usr/bin/env python3
"""Regenerate /verif/MANIFEST.json. Properties listed in CLAIMED are claimed; every other
property of properties.jsonl goes to not_applicable with the reason given in NOT_YET."""
import json, subprocess

CLAIMED = {
 "C01": dict(level="exploration", design="5 C01, 4.1-4.3",
   technique="property-based testing: generated multi-file projects vs. an independent reference model of the README semantics (both directions), proptest-driven choice sequences, structural shrinking",
   text="Generated-input search: thousands of generated multi-directive, multi-file projects per run are built with the real library and compared byte for byte (outputs, temp files, nothing else created, verdict) with a reference model written from the README; failures shrink to a few-line project. This explores the combinatorial interaction space the fixtures sample once each; it does not establish absence of violations.",
   note="Trusts the reference model (harness/src/model, anchored by the repository's golden fixtures and by mutation runs), dash as /bin/sh, and the §4.3 domain (out-of-domain cases are excluded and counted)."),
 "C12": dict(level="exploration", design="5 C12",
   technique="property-based testing: generated LF/CRLF-mixed projects, model-free byte-scan validity predicate over every generated file",
   text="Generated-input search over projects that mix LF and CRLF independently in six places; every output and temp file of a successful build is byte-scanned against the ending of its source's first line. Linux CI never runs CRLF sources; this explores tens of thousands of mixed cases per run. Exploration only: no claim beyond the cases generated.",
   note="Temp files are attributed to sources by a syntactic scan; domain: CR only immediately before LF (other inputs are excluded and counted)."),
 "C13": dict(level="exploration", design="5 C13",
   technique="property-based testing: metamorphic pair relation (option on vs off) over generated sources classified by final state",
   text="Each generated project is built twice in the same root, with the trailing-newline option on and off; verdicts, file sets, temp files and outputs are related pairwise (equal or one final line ending apart; exact form when the source ends in an ordinary line). Covers every final-state class x LF/CRLF that one fixture cannot.",
   note="Sources that include another source's output are skipped for the byte relation (the included file itself legitimately changes); final-state classes come from the reference grammar."),
 "C14": dict(level="exploration", design="5 C14",
   technique="bounded-exhaustive differential testing of the tag store against a list model (4 fresh stores per scenario) + generated whole files against the reference model, built twice",
   text="All tag-name sequences of size <=3 over a two-letter alphabet (equal, prefix-related, overlapping), x stored contents x every target line up to length 6/7 are driven through the real TagState and a list-based model; every return value and string is compared and each scenario repeated on fresh hash maps. Tag-heavy generated files cover create/store/use orders and the documented error orders end to end. Exhaustive within the stated bound, exploration beyond.",
   note="TagState is reached through the add-only verif re-export; the list model is harness/src/model/tags.rs."),
 "C15": dict(level="exploration", design="5 C15",
   technique="bounded-exhaustive differential testing of detect_from/add_line against a grammar transcribed from the property statement, plus proptest-generated longer lines",
   text="Every line of <=4/5 tokens over the property's token alphabet and every (structured directive line, candidate continuation of <=3/4 tokens) pair is classified by the real code and by the reference grammar; results (directive or text, indent, prefix, kind, arguments, continue or end) must coincide. Exhaustive within the bound; longer lines are sampled.",
   note="Pairs where 'as many spaces as the prefix is long' is ambiguous (non-ASCII prefix: bytes vs characters) are excluded and counted."),
 "C16": dict(level="exploration", design="5 C16",
   technique="property-based testing: two round-trip oracles built by construction (identity on directive-free text; write-escape of arbitrary line sequences with stored tags)",
   text="Texts over an alphabet of directive and tag look-alikes must pass through unchanged when no line has the directive shape, and any line sequence escaped with one write directive (generated indent/prefix, stored tags whose names occur in the text) must be reproduced line for line, unexecuted and unsubstituted. Expected bytes come from the construction, not from the model.",
   note="Escape domain as in the statement: first line without leading blank, no trailing blanks."),
}

NOT_YET = "check not built yet in this revision of /verif (see DESIGN.md section 5 for the planned generated-input check); not claimed until its machinery exists"

props = [json.loads(l) for l in open('/verif/properties.jsonl')]
hooks_commits = subprocess.run(["git","-C","/repo","log","--format=%H","--grep=verification hooks","--grep=verif:"],capture_output=True,text=True).stdout.split()

checks = []
na = []
for p in props:
    i = p["id"]
    if i in CLAIMED:
        c = CLAIMED[i]
        checks.append({
          "property_id": i,
          "quick_cmd": f"./check {i} quick",
          "thorough_cmd": f"./check {i} thorough",
          "evidence_file": f"/verif/evidence/{i}.json",
          "replay_cmd_template": "./check --replay {path}",
          "engine": "vfy",
          "level_claimed": {"category": c["level"], "text": c["text"], "design_ref": "DESIGN.md section " + c["design"]},
          "level_note": c["note"],
          "technique": c["technique"],
        })
    else:
        na.append({"property_id": i, "reason": NOT_YET})

m = {
 "version": 1,
 "setup_cmd": "./check --setup",
 "hooks": {
   "guard": "cargo feature `verif` (off by default)",
   "enable": "the harness depends on txtpp with features=[\"verif\"] (harness/Cargo.toml); the CLI binary is built without it",
   "baseline_off_cmd": "cd /repo && cargo test --workspace --no-fail-fast --offline",
   "source_commits": hooks_commits,
   "add_only": True,
 },
 "engines": [
   {"name": "vfy", "path": "/verif/harness", "serves_properties": [c["property_id"] for c in checks],
    "kind_free_text": "Rust harness: proptest-driven generators (choice sequences), bounded-exhaustive enumerators, reference model, schedule controller over the `verif` hooks, fault injection, 16 worker processes, journal + watchdog, JSON replay files"},
 ],
 "checks": checks,
 "not_applicable": na,
 "notes": "Exit status of every check: 0 held on everything explored, 1 violation (VIOLATION line with replay file), 2 infrastructure trouble (build failure, lost worker, watchdog) - never a verdict. VERIF_SEED selects the pseudo-random stream; VERIF_TIER overrides the tier; VERIF_WORKERS the number of worker processes.",
}
json.dump(m, open('/verif/MANIFEST.json','w'), indent=1)
print("claimed:", [c["property_id"] for c in checks])
