#!/usr/bin/env python3
"""Regenerate /verif/MANIFEST.json. Properties listed in CLAIMED are claimed; every other
property of properties.jsonl goes to not_applicable with the reason given in NOT_YET."""
import json, subprocess

CLAIMED = {
 "C01": dict(level="exploration", design="5 C01, 4.1-4.3",
   technique="property-based testing: generated multi-file projects vs. an independent reference model of the README semantics (both directions), proptest-driven choice sequences, structural shrinking",
   text="Generated-input search: thousands of generated multi-directive, multi-file projects per run are built with the real library and compared byte for byte (outputs, temp files, nothing else created, verdict) with a reference model written from the README; failures shrink to a few-line project. This explores the combinatorial interaction space the fixtures sample once each; it does not establish absence of violations.",
   note="Trusts the reference model (harness/src/model, anchored by the repository's golden fixtures and by mutation runs), dash as /bin/sh, and the §4.3 domain (out-of-domain cases are excluded and counted)."),
 "C12": dict(level="exploration", design="5 C12",
   technique="property-based testing: generated LF/CRLF-mixed projects, model-free byte-scan validity predicate over every generated file",
   text="Generated-input search over projects that mix LF and CRLF independently in six places; every output and temp file of a successful build is byte-scanned against the ending of its source's first line. Linux CI never runs CRLF sources; this explores tens of thousands of mixed cases per run. Exploration only: no claim beyond the cases generated.",
   note="Temp files are attributed to sources by a syntactic scan; domain: CR only immediately before LF (other inputs are excluded and counted)."),
 "C13": dict(level="exploration", design="5 C13",
   technique="property-based testing: metamorphic pair relation (option on vs off) over generated sources classified by final state",
   text="Each generated project is built twice in the same root, with the trailing-newline option on and off; verdicts, file sets, temp files and outputs are related pairwise (equal or one final line ending apart; exact form when the source ends in an ordinary line). Covers every final-state class x LF/CRLF that one fixture cannot.",
   note="For sources with dependencies only the end of the file is judged (an included or cat-ed dependency output legitimately changes in the middle); final-state classes come from the reference grammar."),
 "C14": dict(level="exploration", design="5 C14",
   technique="bounded-exhaustive differential testing of the tag store against a list model (4 fresh stores per scenario) + generated whole files against the reference model, built twice",
   text="All tag-name sequences of size <=3 over a two-letter alphabet (equal, prefix-related, overlapping), x stored contents x every target line up to length 6/7 are driven through the real TagState and a list-based model; every return value and string is compared and each scenario repeated on fresh hash maps. Tag-heavy generated files cover create/store/use orders and the documented error orders end to end. Exhaustive within the stated bound, exploration beyond.",
   note="TagState is reached through the add-only verif re-export; the list model is harness/src/model/tags.rs."),
 "C15": dict(level="exploration", design="5 C15",
   technique="bounded-exhaustive differential testing of detect_from/add_line against a grammar transcribed from the property statement, proptest-generated longer lines, a byte/character consistency oracle for space continuations, and generated small files judged end to end by the reference model",
   text="Every line of <=4/5 tokens over the property's token alphabet (17 tokens, among them tab and U+3000 as whitespace that is not ASCII) and every (structured directive line, candidate continuation of <=3/4 tokens) pair is classified by the real code and by the reference grammar; results (directive or text, indent, prefix, kind, arguments, continue or end) must coincide. Exhaustive within the bound; longer lines are sampled; small generated files (directive, continuation-like and text lines) go through a whole build so that the line loop around the two functions (where a directive ends, the ending line processed normally, prefix-less multi-line directives rejected) is covered too.",
   note="Pairs where 'as many spaces as the prefix is long' is ambiguous (non-ASCII prefix: bytes vs characters) are excluded and counted."),
 "C16": dict(level="exploration", design="5 C16",
   technique="property-based testing: two round-trip oracles built by construction (identity on directive-free text; write-escape of arbitrary line sequences with stored tags)",
   text="Texts over an alphabet of directive and tag look-alikes must pass through unchanged when no line has the directive shape, and any line sequence escaped with one write directive (generated indent/prefix, stored tags whose names occur in the text) must be reproduced line for line, unexecuted and unsubstituted. Expected bytes come from the construction, not from the model.",
   note="Escape domain as in the statement: first line without leading blank, no trailing blanks."),
 "C02": dict(level="exploration", design="5 C02, 4.4",
   technique="schedule exploration by owned nondeterminism: exhaustive DFS over all task completion orders (controller on the verif hooks) for all small DAGs + proptest-sampled larger DAGs/schedules + free-running runs; oracle = reference model + history invariant on the hook trace",
   text="The harness owns which in-flight worker task completes next, so completion orders are enumerated instead of left to the OS: every labelled DAG on <=4 files x requested subsets x stale/absent pre-existing outputs x every completion order (quick: reduced subsets for 4 files), plus sampled larger graphs, pool sizes and real concurrency. On success every output must equal one-at-a-time processing (reference model), commands after a dependency directive must run once, and in the trace the final pass of a file begins only after its dependencies' final passes ended. Exhaustive within the stated scope for the serialised task-order space; exploration beyond.",
   note="Assumes the serialising controller's order space covers the coordinator's behaviours (argued in DESIGN 4.4); overlapping execution is sampled only."),
 "C03": dict(level="exploration", design="5 C03, 4.4",
   technique="schedule exploration (exhaustive DFS over completion orders for all digraphs on <=3 files x alias/duplicate/directory inputs, sampled beyond) with logical deadlock detection, execution-counter markers and trace counts",
   text="Termination is decided logically at the coordinator's idle poll (no task outstanding, nothing can arrive) rather than by a clock; exactly-once completion is checked by per-command marker files and by counting first/second passes per file in the hook trace, under every completion order of the enumerated scope and for inputs that name the same file or directory several ways; a last tier requires that runs in which one file fails return as well.",
   note="A loop inside a worker task would only be caught by the orchestrator's 60 s isolated double replay (then reported as violation because the statement says the run terminates)."),
 "C05": dict(level="exploration", design="5 C05, 4.4",
   technique="schedule exploration: all 530 digraphs with self-loops on <=3 files x requested subsets x all completion orders (DFS), sampled 4-7 files; oracle = cycle reachability computed on the graph, reference model for bystanders, logical deadlock detection",
   text="For every enumerated digraph, request and completion order: if a required file can reach a cycle the run must return an error (and return at all), every required file that cannot reach a cycle must still be built correctly, and acyclic requests must succeed. Exhaustive in the stated scope, sampled beyond.",
   note="Same controller assumptions as C02."),
 "C06": dict(level="exploration", design="5 C06",
   technique="property-based testing with a same-root differential oracle (verify vs. a fresh build), single-point tampering operators, snapshot-based read-only check",
   text="Generated successful projects are built, then changed at one point (byte flip/insert/delete at first/middle/last, append, every truncation class, deletion, prefix-extension, option mismatch, source edit), with file times equal or sources newer / older than outputs; verify must pass iff every output of the verified closure equals what a build with the same options writes now, and must leave every output path untouched (bytes, inode, mtime).",
   note="The closure is taken from the hook trace of the reference build; builds are deterministic for the command vocabulary."),
 "C07": dict(level="exploration", design="5 C07",
   technique="property-based testing over build/clean histories with whole-tree snapshots and execution-counter markers",
   text="For generated projects incl. erroneous sources and four histories, clean must return Ok, run no command, create/modify nothing, delete only outputs and temp targets (never a .txtpp path), and after a successful build restore the pre-build tree exactly.",
   note="Inputs are closed under dependency (whole tree or all sources named), as Mode::Clean documents that dependencies are not followed."),
 "C08": dict(level="fault_enumeration", design="5 C08, 4.5",
   technique="property-based testing, metamorphic oracle over constructed leftover states (crash points as byte prefixes, invalid UTF-8, stale, empty, same-length one-byte changes) of every generated path",
   text="Leftover states of previous or interrupted runs are enumerated by construction at byte granularity for every generated path; the build (normal and --needed) must give the verdict and bytes of a build from the tree without generated files, and building twice must equal building once. Found two genuine defects (non-UTF-8 leftovers), both fixed.",
   note="Interrupted runs are represented by their leftover regular files; kernel-level partial states are out of scope."),
 "C09": dict(level="exploration", design="5 C09",
   technique="property-based testing over edit/tamper/build/needed/verify histories; same-root differential oracle vs. a normal build; inode+sentinel-mtime no-rewrite check",
   text="Every --needed (and build) run in a generated history must have the verdict and bytes of a normal build of the current sources; files that already had the correct content must keep inode and mtime (outputs under --needed/verify, temp files in every non-clean mode).",
   note="Projects where two directives write the same temp target are excluded."),
 "C10": dict(level="exploration", design="5 C10",
   technique="property-based testing: whole-tree snapshot diff (bytes, inode, mtime) against the allowed write set, over modes x inputs x decoys",
   text="Across all four modes, successful and failing projects (also: built successfully, then broken), decoy and near-miss file names, the set of created/deleted/modified/touched paths must be contained in the outputs and temp targets of the sources the run may process; verify must not touch outputs; clean must create nothing.",
   note="The may-process set comes from the input-resolution model that C11 validates."),
 "C11": dict(level="exploration", design="5 C11",
   technique="property-based testing against an independent input-resolution and naming model; created-output set and per-source execution counters",
   text="Generated trees with the three source-name shapes, look-alikes and dependencies are processed with generated input lists (directories, either name, ./ ../ absolute, duplicates, missing, plain files) and recursion on/off, with base directory != cwd; the created outputs and per-source command counters must match the model's processed set exactly, missing targets must fail, verify after a full build must succeed, create nothing and re-run the commands of exactly the dependency-closed set, clean must remove exactly the named sources' outputs.",
   note="No symlinks; relative base directories are exercised by C17's child processes."),
 "C04": dict(level="fault_enumeration", design="5 C04, 4.5",
   technique="fault injection by enumeration with real OS faults (occupied paths, invalid bytes, signal-killed commands, RLIMIT_FSIZE in child processes) x position x mode x controlled schedules; control twin per faulty case; CLI exit status",
   text="Each generated case puts exactly one fault of twelve kinds into one file of a dependency DAG, at a leaf / middle / root / unrelated position, before or after its dependency directives, and runs it in every mode under harness-chosen completion orders; the run must fail iff the faulty file is required, and any reported success must come with complete, correct outputs. Write failures are real: child processes under RLIMIT_FSIZE around the lengths of the generated files, including outputs larger than the 8 KiB write buffer, for the library and the binary.",
   note="ENOSPC-on-close is approximated by EFBIG-on-write; clean mode only gets directive faults (it is documented to ignore them)."),
 "C17": dict(level="exploration", design="5 C17",
   technique="property-based testing over (depth, base-vs-cwd, entry point, shell, command shape, exit status) with child processes for cwd/base combinations, an argv-dumping shell and the real binary",
   text="The working directory, argv, TXTPP_FILE, stdout splicing, exit-status handling and the recursion guard of run directives are observed from inside the command (pwd / a dumper script) for sources at depth 0-3, with the base directory equal to, above, below or unrelated to the process cwd, through the library (in-process and in a child) and the binary, alone or next to other sources of the same build that run the textually identical commands in other directories. Found the base-relative working-directory defect (fixed).",
   note="TXTPP_FILE: only 'designates the source' is asserted (README says absolute, a fixture pins base-relative)."),
 "C18": dict(level="exploration", design="5 C18",
   technique="robustness fuzzing: proptest-driven grammar-aware, byte-level and mutated-well-formed generators + coverage-guided libFuzzer campaign (thorough) on the same decoder; oracle = returns, no panic on any thread, no abort, no logical deadlock; Landlock-confined workers",
   text="Arbitrary file contents, directive arguments and option values (threads 0-16, all modes) are thrown at the library inside a Landlock sandbox; a global panic hook plus the task guards of the verif hooks see panics on any thread, the controller's idle-poll rule turns a dead worker into a detected deadlock instead of a hang, and worker-process deaths are attributed through a journal. Found the -j 0 panic (fixed).",
   note="Nothing semantic is asserted, so no false alarms from semantics; a loop inside a task is only caught by the clock backstop."),
}

NOT_YET = "check not built yet in this revision of /verif (see DESIGN.md section 5 for the planned generated-input check); not claimed until its machinery exists"

props = [json.loads(l) for l in open('/verif/properties.jsonl')]
hooks_commits = subprocess.run(["git","-C","/repo","log","--format=%H","--grep=verification hooks","--grep=verif:"],capture_output=True,text=True).stdout.split()

checks = []
na = []
for p in props:
    i = p["id"]
    if i in CLAIMED:
        c = CLAIMED[i]
        checks.append({
          "property_id": i,
          "quick_cmd": f"./check {i} quick",
          "thorough_cmd": f"./check {i} thorough",
          "evidence_file": f"/verif/evidence/{i}.json",
          "replay_cmd_template": "./check --replay {path}",
          "engine": "vfy",
          "level_claimed": {"category": c["level"], "text": c["text"], "design_ref": "DESIGN.md section " + c["design"]},
          "level_note": c["note"],
          "technique": c["technique"],
        })
    else:
        na.append({"property_id": i, "reason": NOT_YET})

m = {
 "version": 1,
 "setup_cmd": "./check --setup",
 "hooks": {
   "guard": "cargo feature `verif` (off by default)",
   "enable": "the harness depends on txtpp with features=[\"verif\"] (harness/Cargo.toml); the CLI binary is built without it",
   "baseline_off_cmd": "cd /repo && cargo test --workspace --no-fail-fast --offline",
   "source_commits": hooks_commits,
   "add_only": True,
 },
 "engines": [
   {"name": "vfy", "path": "/verif/harness", "serves_properties": [c["property_id"] for c in checks],
    "kind_free_text": "Rust harness: proptest-driven generators (choice sequences), bounded-exhaustive enumerators, reference model, schedule controller over the `verif` hooks, fault injection, 16 worker processes, journal + watchdog, JSON replay files"},
 ],
 "checks": checks,
 "not_applicable": na,
 "notes": "Exit status of every check: 0 held on everything explored, 1 violation (VIOLATION line with replay file), 2 infrastructure trouble (build failure, lost worker, watchdog) - never a verdict. VERIF_SEED selects the pseudo-random stream; VERIF_TIER overrides the tier; VERIF_WORKERS the number of worker processes.",
}
json.dump(m, open('/verif/MANIFEST.json','w'), indent=1)
print("claimed:", [c["property_id"] for c in checks])
