#![no_main]
//! libFuzzer target for C18 (thorough tier): the input bytes are read as a choice sequence for
//! the same generators the proptest-driven check uses (grammar-aware / byte-level / mutated
//! well-formed projects x modes x threads), and the same oracle runs in-process: no panic on
//! any thread, no logical deadlock, the call returns. A violation prints the case and aborts,
//! so libFuzzer saves the input; `vfy fuzz-decode <artifact>` turns it into a replay file.
use libfuzzer_sys::fuzz_target;
use std::sync::Once;

static INIT: Once = Once::new();

fuzz_target!(|data: &[u8]| {
    INIT.call_once(|| {
        vfy::runner::init_panic_hook();
        let dirs: Vec<std::path::PathBuf> = std::env::var("VFY_FUZZ_RW")
            .unwrap_or_default()
            .split(':')
            .filter(|s| !s.is_empty())
            .map(std::path::PathBuf::from)
            .collect();
        let refs: Vec<&std::path::Path> = dirs.iter().map(|p| p.as_path()).collect();
        let ok = vfy::props::c18::ensure_confined(&refs);
        eprintln!("c18 fuzz target: landlock confinement {}", if ok { "active" } else { "UNAVAILABLE (risky paths are not generated)" });
    });
    if let Err(m) = vfy::props::c18::fuzz_one(data) {
        eprintln!("C18 VIOLATION {m}");
        std::process::abort();
    }
});
